#!/usr/bin/env python3
"""Driver for the solver-based checks of fast_image_resize.

    chk.py C04 [--tier quick|thorough] [--only SUBSTR] [--jobs N] [--keep]
    chk.py --replay /verif/replays/<file>.json
    chk.py --list

Exit codes: 0 = every obligation decided and held (or only KNOWN-FINDINGs);
            1 = a reproduced violation that is not a listed finding;
            2 = inconclusive (timeout / OOM / unwinding / vacuous / counterexample that
                does not replay) -- never reported as success, never as VIOLATION.
"""
import argparse
import concurrent.futures
import hashlib
import json
import os
import queue
import re
import shutil
import signal
import subprocess
import sys
import time
from pathlib import Path

VERIF = Path(__file__).resolve().parent
KH = VERIF / "kh"
TGT = KH / "tgt"
REPO = Path("/repo")
EVID = Path(os.environ.get("VERIF_EVIDENCE_DIR", str(VERIF / "evidence")))
REPLAYS = VERIF / "replays"
KNOWN = VERIF / "known_findings.json"

BASE_ENV = dict(os.environ)
BASE_ENV["RUSTFLAGS"] = "--cfg fir_verif"
BASE_ENV["CARGO_NET_OFFLINE"] = "true"
BASE_ENV.pop("CARGO_TARGET_DIR", None)

TRUSTED = [
    "Kani 0.68.0 (rustc MIR -> goto-program), CBMC 6.11.0, CaDiCaL",
    "harness code and closed-form oracles in /verif/kh/src",
    "stubs listed per harness (x86 intrinsic models are differential-tested natively at setup)",
]

BENIGN = re.compile(r"^(NaN on |arithmetic overflow on floating-point)")


def log(*a):
    print(*a, flush=True)


# ---------------------------------------------------------------------------
# annotations
# ---------------------------------------------------------------------------

ANN = re.compile(r"^\s*// @h\s+(\w+)\s*\|(.*)$")


def discover():
    """Parse `// @h name | key=val | ...` lines from the harness sources."""
    hs = {}
    for f in sorted(KH.glob("src/**/*.rs")):
        for line in f.read_text().splitlines():
            m = ANN.match(line)
            if not m:
                continue
            d = {"name": m.group(1), "file": str(f.relative_to(KH))}
            for part in m.group(2).split("|"):
                part = part.strip()
                if not part:
                    continue
                k, _, v = part.partition("=")
                d[k.strip()] = v.strip()
            d.setdefault("tier", "quick")
            d.setdefault("t", "300")
            d.setdefault("flags", "")
            d.setdefault("mem", "6")
            hs[d["name"]] = d
    return hs


# ---------------------------------------------------------------------------
# running kani
# ---------------------------------------------------------------------------

def sh(cmd, env=None, timeout=None, cwd=None, mem_gb=None):
    """Run a command in its own process group; kill the whole group on timeout."""
    pre = ""
    if mem_gb:
        pre = "ulimit -v %d; " % int(mem_gb * 1024 * 1024)
    p = subprocess.Popen(["bash", "-c", pre + cmd], cwd=cwd or KH, env=env or BASE_ENV,
                         stdout=subprocess.PIPE, stderr=subprocess.STDOUT,
                         start_new_session=True, text=True, errors="replace")
    try:
        out, _ = p.communicate(timeout=timeout)
        return p.returncode, out, False
    except subprocess.TimeoutExpired:
        try:
            os.killpg(p.pid, signal.SIGKILL)
        except ProcessLookupError:
            pass
        out, _ = p.communicate()
        return -9, out, True


def features_arg(prop):
    return "--features prop_%s" % prop.lower()


def clean_harness_artifacts(tdir):
    """Per-harness goto binaries are large (tens of MB each); drop them after use."""
    for d in Path(tdir).glob("kani/*/debug/build/fir_kh*"):
        shutil.rmtree(d, ignore_errors=True)


def prepare_workers(prop, n, first):
    """One target dir per worker; the first is built, the others are copies."""
    base = TGT / prop
    dirs = [base / ("w%d" % i) for i in range(n)]
    seed = TGT / "seed"
    t0 = time.time()
    if not dirs[0].exists():
        dirs[0].parent.mkdir(parents=True, exist_ok=True)
        if seed.exists():
            subprocess.run(["cp", "-a", str(seed), str(dirs[0])], check=True)
    # build (or refresh) worker 0 against the *current* /repo sources
    rc, out, to = sh("cargo kani %s -Z stubbing --target-dir %s --only-codegen --harness %s" % (features_arg(prop), dirs[0], first),
                     timeout=1800)
    if rc != 0:
        log(out[-6000:])
        log("INCONCLUSIVE: harness crate does not build against /repo")
        sys.exit(2)
    clean_harness_artifacts(dirs[0])
    for d in dirs[1:]:
        if d.exists():
            shutil.rmtree(d)
        subprocess.run(["cp", "-a", str(dirs[0]), str(d)], check=True)
    log("[chk] %d worker target dirs ready in %.0fs" % (n, time.time() - t0))
    return dirs


CHECK_RE = re.compile(r"^Check (\d+): (\S+)\n\s+- Status: (\w+)\n\s+- Description: \"(.*)\"(?:\n\s+- Location: (.*))?",
                      re.M)
FAILED_RE = re.compile(r"^Failed Checks: (.*)\n File: \"([^\"]*)\", line (\d+), in (.*)$", re.M)
FAILED_NOLOC_RE = re.compile(r"^Failed Checks: (.*)$", re.M)


def parse_kani(out):
    r = {"verdict": None, "checks": 0, "failed_n": 0, "failed": [], "covers": [], "time": None, "notes": []}
    m = re.search(r"\*\* (\d+) of (\d+) failed", out)
    if m:
        r["failed_n"] = int(m.group(1))
        r["checks"] = int(m.group(2))
    m = re.search(r"^VERIFICATION:- (\w+)", out, re.M)
    if m:
        r["verdict"] = m.group(1)
    m = re.search(r"^Verification Time: ([0-9.]+)s", out, re.M)
    if m:
        r["time"] = float(m.group(1))
    for cm in CHECK_RE.finditer(out):
        _, cid, status, desc, loc = cm.groups()
        if ".cover." in cid or status in ("SATISFIED", "UNSATISFIABLE"):
            r["covers"].append({"desc": desc.strip('"'), "status": status})
    summary = out.split("SUMMARY:")[-1] if "SUMMARY:" in out else out
    seen = set()
    for fm in FAILED_RE.finditer(summary):
        desc, file, line, func = fm.groups()
        key = (desc, file, line)
        if key in seen:
            continue
        seen.add(key)
        r["failed"].append({"desc": desc.strip().strip('"'), "file": file, "line": int(line), "func": func.strip()})
    if r["failed_n"] and not r["failed"]:
        for fm in FAILED_NOLOC_RE.finditer(summary):
            r["failed"].append({"desc": fm.group(1).strip().strip('"'), "file": "", "line": 0, "func": ""})
    if re.search(r"Status: ERROR|CBMC failed|out of memory|std::bad_alloc|Killed|memory exhausted", out):
        r["notes"].append("solver-error")
    return r


def parse_playback_tests(out):
    """Extract the unit tests Kani prints with --concrete-playback=print."""
    tests = []
    for m in re.finditer(r"```\n(/// Test generated for harness `([^`]*)`.*?)```", out, re.S):
        src = m.group(1)
        kind = re.search(r"/// Check for `(\w+)`: \"(.*)\"", src)
        name = re.search(r"fn (kani_concrete_playback_\w+)\(", src)
        vals = re.findall(r"^\s*// (.*)$", src, re.M)
        tests.append({"harness": m.group(2), "kind": kind.group(1) if kind else "?",
                      "check": kind.group(2) if kind else "?", "test": name.group(1) if name else None,
                      "values": vals, "src": src})
    return tests


def kani_cmd(h, prop, tdir, playback=False):
    # Kani's harness filter is a substring match unless --exact is given (c15_bounds_b3 would also
    # run c15_bounds_b31): always pass the fully qualified name
    module = Path(h["file"]).stem
    cmd = "cargo kani %s --target-dir %s --harness %s::%s --exact -Z stubbing" % (features_arg(prop), tdir, module, h["name"])
    fl = h.get("flags", "")
    extra = [f for f in fl.split() if f != "stub"]
    if extra or h.get("cbmc"):
        cmd += " -Z unstable-options"
    for f in extra:
        cmd += " " + f
    if h.get("cbmc"):
        cmd += " --cbmc-args " + h["cbmc"]
    if playback:
        cmd = cmd.replace("cargo kani", "cargo kani -Z concrete-playback --concrete-playback=print", 1)
    return cmd


def run_harness(h, prop, tdir, scale=1.0):
    t0 = time.time()
    timeout = float(h["t"]) * scale
    cmd = kani_cmd(h, prop, tdir)
    rc, out, timed_out = sh(cmd, timeout=timeout, mem_gb=float(h["mem"]))
    logd = VERIF / "logs" / prop
    logd.mkdir(parents=True, exist_ok=True)
    (logd / (h["name"] + ".log")).write_text(out)
    r = parse_kani(out)
    r.update({"name": h["name"], "cmd": cmd, "wall": time.time() - t0, "rc": rc, "timed_out": timed_out})
    def benign(f):
        if BENIGN.match(f["desc"]):
            return True
        # Kani's overflow check on simd_mul/add/sub applied to FLOAT vector intrinsics (result +-inf)
        return bool(re.match(r"attempt to compute simd_(mul|add|sub|div) which would overflow", f["desc"])
                    and re.search(r"_mm(256)?_\w+_p[sd]\b", f["func"]))
    real = [f for f in r["failed"] if not benign(f)]
    unwind = [f for f in real if "unwinding assertion" in f["desc"]]
    r["real_failed"] = [f for f in real if f not in unwind]
    must = [c for c in r["covers"] if not c["desc"].startswith("opt:")]
    r["vacuous"] = [c["desc"] for c in must if c["status"] != "SATISFIED"]
    if timed_out:
        r["status"] = "inconclusive"
        r["why"] = "timeout %.0fs" % timeout
    elif r["verdict"] is None or "solver-error" in r["notes"]:
        r["status"] = "inconclusive"
        r["why"] = "no verdict (rc=%s): %s" % (rc, out[-400:].replace("\n", " | "))
    elif unwind:
        r["status"] = "inconclusive"
        r["why"] = "unwinding assertion failed: " + unwind[0]["desc"]
    elif r["real_failed"]:
        r["status"] = "failed"
    elif r["vacuous"]:
        r["status"] = "inconclusive"
        r["why"] = "vacuous: cover not satisfied: %s" % r["vacuous"]
    else:
        r["status"] = "ok"
    r["out_tail"] = out[-3000:] if r["status"] != "ok" else ""
    r["raw"] = out
    return r


# ---------------------------------------------------------------------------
# replay of counterexamples against the native build
# ---------------------------------------------------------------------------

def mods_for_playback():
    mods = []
    for f in sorted(KH.glob("src/*.rs")):
        if f.stem in ("lib", "common", "x86_model", "playback", "spec"):
            continue
        mods.append(f.stem)
    return mods


def write_playback(prop, tests):
    src = ["// generated by chk.py: concrete playback tests (counterexamples found by the solver)",
           "#![allow(unused_imports)]"]
    lib = (KH / "src" / "lib.rs").read_text()
    for m in re.finditer(r'#\[cfg\(all\(kani, feature = "prop_%s"\)\)\]\npub mod (\w+);' % prop.lower(), lib):
        src.append("use crate::%s::*;" % m.group(1))
    for t in tests:
        src.append(t["src"])
    (KH / "src" / "playback.rs").write_text("\n".join(src) + "\n")


def reset_playback():
    (KH / "src" / "playback.rs").write_text("// generated: concrete playback tests are written here by the driver\n")


PLAYBACK_LOCK = None


def native_replay(prop, tests, profile):
    """Run the generated tests natively (real intrinsics, real code).

    profile 'dev' = what Kani models (debug assertions + overflow checks);
    profile 'release' = opt-level 3 without debug assertions / overflow checks (what users run).
    Returns {test: (status, message)}."""
    write_playback(prop, tests)
    env = dict(BASE_ENV)
    env["CARGO_TARGET_DIR"] = str(TGT / ("playback-%s-%s" % (prop, profile)))
    if profile == "release":
        for prof in ("DEV", "TEST"):
            env["CARGO_PROFILE_%s_OPT_LEVEL" % prof] = "3"
            env["CARGO_PROFILE_%s_DEBUG_ASSERTIONS" % prof] = "false"
            env["CARGO_PROFILE_%s_OVERFLOW_CHECKS" % prof] = "false"
    cmd = "cargo kani playback -Z concrete-playback %s -- kani_concrete_playback --test-threads 1" % features_arg(prop)
    rc, out, to = sh(cmd, env=env, timeout=1800)
    res = {}
    for t in tests:
        m = re.search(r"test \S*%s \.\.\. (\w+)" % re.escape(t["test"]), out)
        st = m.group(1) if m else "missing"
        msg = ""
        pm = re.search(r"---- \S*%s stdout ----\n(.*?)(?:\n\n|\nstack backtrace)" % re.escape(t["test"]), out, re.S)
        if pm:
            msg = pm.group(1).strip()[:600]
        res[t["test"]] = (st, msg)
    if any(v[0] == "missing" for v in res.values()):
        log("[chk] native replay (%s) produced no result for some tests:\n%s" % (profile, out[-2500:]))
    return res, out


def load_known():
    if KNOWN.exists():
        return json.loads(KNOWN.read_text())
    return {"findings": [], "fixed": []}


def match_finding(known, prop, harness, chk):
    for f in known.get("findings", []):
        if f["property"] != prop:
            continue
        if not re.search(f.get("harness", ".*"), harness):
            continue
        if not re.search(f.get("check", ".*"), chk["desc"]):
            continue
        loc = "%s:%s %s" % (chk["file"], chk["line"], chk["func"])
        if not re.search(f.get("location", ".*"), loc):
            continue
        return f
    return None


def triage(prop, failed_results, harnesses, tdirs):
    """For every failed harness: get the counterexample, replay natively, classify."""
    known = load_known()
    outcome = {"violations": [], "known": [], "inconclusive": []}
    REPLAYS.mkdir(exist_ok=True)
    free = queue.Queue()
    for d in tdirs:
        free.put(d)

    def get_tests(r):
        h = harnesses[r["name"]]
        d = free.get()
        try:
            # trace generation needs several times the memory of the plain run
            rc, out, to = sh(kani_cmd(h, prop, d, playback=True), timeout=float(h["t"]) * 3,
                             mem_gb=max(45.0, 3 * float(h["mem"])))
        finally:
            clean_harness_artifacts(d)
            free.put(d)
        logd = VERIF / "logs" / prop
        logd.mkdir(parents=True, exist_ok=True)
        (logd / (h["name"] + ".playback.log")).write_text(out)
        return [t for t in parse_playback_tests(out) if t["kind"] != "cover" and t["test"]
                and not BENIGN.match(t["check"].strip('"')) and "unwinding assertion" not in t["check"]]

    heavy = any(float(harnesses[r["name"]]["mem"]) >= 10 for r in failed_results)
    with concurrent.futures.ThreadPoolExecutor(1 if heavy else min(4, len(tdirs))) as ex:
        all_tests = list(ex.map(get_tests, failed_results))
    flat = [t for ts in all_tests for t in ts]
    dev, rel = {}, {}
    if flat:
        dev, _ = native_replay(prop, flat, "dev")
        rel, _ = native_replay(prop, flat, "release")
        reset_playback()
    for r, tests in zip(failed_results, all_tests):
        if not tests:
            outcome["inconclusive"].append((r["name"], "solver reported a failure but produced no counterexample"))
            continue
        reproduced = [t for t in tests if dev[t["test"]][0] == "FAILED" or rel[t["test"]][0] == "FAILED"]
        rec = {"property": prop, "harness": r["name"], "kani_cmd": r["cmd"],
               "failed_checks": r["real_failed"],
               "tests": [{"test": t["test"], "check": t["check"], "values": t["values"], "src": t["src"],
                          "dev": dev[t["test"]], "release": rel[t["test"]]} for t in tests]}
        digest = hashlib.sha1(json.dumps(rec["failed_checks"], sort_keys=True).encode()).hexdigest()[:10]
        path = REPLAYS / ("%s-%s-%s.json" % (prop, r["name"], digest))
        path.write_text(json.dumps(rec, indent=1))
        if not reproduced:
            mem_only = all(re.search(r"dereference failure|pointer|memcpy|offset|out of bounds", f["desc"])
                           for f in r["real_failed"])
            outcome["inconclusive"].append(
                (r["name"], "counterexample does not fail natively (%s); replay file %s" %
                 ("memory-safety check: UB that does not crash, triage by reading" if mem_only else
                  "model/stub mismatch?", path)))
            continue
        unmatched = []
        for chk in r["real_failed"]:
            f = match_finding(known, prop, r["name"], chk)
            if f:
                outcome["known"].append((f, r["name"], chk))
            else:
                unmatched.append(chk)
        if unmatched:
            outcome["violations"].append((r["name"], path, unmatched, rec))
    return outcome


def replay_file(path):
    rec = json.loads(Path(path).read_text())
    prop = rec["property"]
    tests = [{"test": t["test"], "src": t["src"], "check": t["check"]} for t in rec["tests"]]
    bad = 0
    for prof in ("dev", "release"):
        res, out = native_replay(prop, tests, prof)
        for t in tests:
            st, msg = res[t["test"]]
            log("[replay %s] %s (%s): %s %s" % (prof, t["test"], t["check"], st, msg[:300]))
            if st == "FAILED":
                bad += 1
    reset_playback()
    if bad:
        log("VIOLATION property=%s replay=%s" % (prop, path))
        return 1
    log("replay: counterexample no longer fails")
    return 0


# ---------------------------------------------------------------------------
# main check
# ---------------------------------------------------------------------------

def pre_steps(prop, tier, seed):
    """Property specific generators (float stage evaluation, harness instances)."""
    gen = VERIF / "gen" / ("pre_%s.py" % prop.lower())
    common = VERIF / "gen" / "pregen.py"
    info = {}
    if common.exists():
        env = dict(BASE_ENV)
        env["VERIF_TIER"] = tier
        env["VERIF_SEED"] = str(seed)
        rc, out, to = sh("python3 %s %s" % (common, prop), env=env, timeout=1800, cwd=VERIF)
        if rc != 0:
            log(out[-4000:])
            raise SystemExit(2)
        m = re.search(r"^PREGEN-INFO (.*)$", out, re.M)
        if m:
            info = json.loads(m.group(1))
    return info


def setup():
    """Build the seed target dir (dependencies compiled by kani-compiler) from files on disk."""
    seed = TGT / "seed"
    seed.parent.mkdir(parents=True, exist_ok=True)
    rc, out, to = sh("cargo kani --features prop_c04 -Z stubbing --target-dir %s --only-codegen --harness c04a_typed_cropped_new" % seed, timeout=3000)
    log(out[-1500:])
    if rc != 0:
        return 1
    st = VERIF / "selftest.py"
    if st.exists():
        rc, out, to = sh("python3 %s" % st, timeout=3000, cwd=VERIF)
        log(out[-3000:])
        if rc != 0:
            return 1
    log("[chk] setup done")
    return 0


def main():
    ap = argparse.ArgumentParser()
    ap.add_argument("prop", nargs="?")
    ap.add_argument("--tier", default=os.environ.get("VERIF_TIER", "quick"))
    ap.add_argument("--only", default=None)
    ap.add_argument("--jobs", type=int, default=int(os.environ.get("VERIF_JOBS", "12")))
    ap.add_argument("--keep", action="store_true")
    ap.add_argument("--replay", default=None)
    ap.add_argument("--list", action="store_true")
    ap.add_argument("--setup", action="store_true")
    ap.add_argument("--scale", type=float, default=float(os.environ.get("VERIF_TIMEOUT_SCALE", "1")))
    a = ap.parse_args()
    seed = int(os.environ.get("VERIF_SEED", "0"))

    if a.replay:
        sys.exit(replay_file(a.replay))

    if a.setup:
        sys.exit(setup())

    if a.list:
        for n, h in discover().items():
            log("%-8s %-9s %s" % (h.get("prop"), h["tier"], n))
        return

    prop = a.prop.upper()
    tier = a.tier
    t0 = time.time()
    info = pre_steps(prop, tier, seed)
    allh = discover()
    hs = {n: h for n, h in allh.items() if h.get("prop") == prop and
          (tier == "thorough" or h["tier"] == "quick") and (not a.only or a.only in n)}
    if not hs:
        raise SystemExit("no harnesses for %s" % prop)
    n = max(1, min(a.jobs, len(hs)))
    tdirs = prepare_workers(prop, n, sorted(hs)[0])
    free = queue.Queue()
    for d in tdirs:
        free.put(d)

    import threading
    budget = float(os.environ.get("VERIF_MEM_GB", "52"))
    cv = threading.Condition()
    used = [0.0]

    def job(h):
        need = min(float(h["mem"]), budget)
        with cv:
            while used[0] + need > budget:
                cv.wait()
            used[0] += need
        d = free.get()
        try:
            return run_harness(h, prop, d, a.scale)
        finally:
            clean_harness_artifacts(d)
            free.put(d)
            with cv:
                used[0] -= need
                cv.notify_all()

    order = sorted(hs.values(), key=lambda h: -float(h["t"]))
    results = []
    with concurrent.futures.ThreadPoolExecutor(n) as ex:
        for r in ex.map(job, order):
            results.append(r)
            log("[chk] %-44s %-12s checks=%-5d cbmc=%ss wall=%.0fs %s" % (
                r["name"], r["status"], r["checks"], r["time"], r["wall"], r.get("why", "")))

    failed = [r for r in results if r["status"] == "failed"]
    inconclusive = [(r["name"], r.get("why", "")) for r in results if r["status"] == "inconclusive"]
    outcome = {"violations": [], "known": [], "inconclusive": []}
    if failed:
        for r in failed:
            for f in r["real_failed"]:
                log("[chk]   failed check in %s: %s  (%s:%s)" % (r["name"], f["desc"], f["file"], f["line"]))
        outcome = triage(prop, failed, hs, tdirs)
    inconclusive += outcome["inconclusive"]

    # report
    seen = set()
    for f, hname, chk in outcome["known"]:
        if f["id"] in seen:
            continue
        seen.add(f["id"])
        log("KNOWN-FINDING: property=%s %s [%s]" % (prop, f["what"], f["id"]))
    for hname, path, unmatched, rec in outcome["violations"]:
        for chk in unmatched:
            log("[chk] violation in %s: %s (%s:%s)" % (hname, chk["desc"], chk["file"], chk["line"]))
        log("VIOLATION property=%s replay=%s" % (prop, path))
    for name, why in inconclusive:
        log("INCONCLUSIVE property=%s harness=%s %s" % (prop, name, why))

    # evidence
    samples = []
    for r in results:
        s = {"harness": r["name"], "status": r["status"], "checks": r["checks"],
             "encodes": hs[r["name"]].get("enc", ""), "bounds": hs[r["name"]].get("bounds", ""),
             "covers": r["covers"][:8], "cbmc_s": r["time"]}
        samples.append(s)
    decided = [r for r in results if r["status"] in ("ok", "failed")]
    nontrivial = [r for r in results if r["status"] == "ok" and not r["vacuous"]]
    ev = {
        "property_id": prop,
        "tier": tier,
        "seed": seed,
        "level": "other",
        "coverage": {
            "explanation": "bounded symbolic execution of the real code (Kani -> CBMC -> SAT): inputs named "
                           "'symbolic' in each harness' bounds are quantified by the solver; dimensions named "
                           "'enumerated' are iterated concretely; unwinding assertions on; every harness carries "
                           "kani::cover! reachability witnesses that must be SATISFIED",
            "evaluations": len(results),
            "distinct_nontrivial": len(nontrivial),
            "rule": "one evaluation = one Kani harness (a set of assertions over symbolic inputs); non-trivial = "
                    "decided SUCCESSFUL and not vacuous: every kani::cover! reachability witness SATISFIED (harnesses "
                    "that contain no kani::assume cannot be vacuous: with unconstrained inputs every path either "
                    "reaches the end or fails a check); harness names are distinct",
            "samples": samples,
            "obligations": sum(r["checks"] for r in results),
            "discharged": sum(r["checks"] - len(r["real_failed"]) for r in decided),
            "harnesses": len(results),
            "harnesses_ok": len([r for r in results if r["status"] == "ok"]),
            "harnesses_failed": len(failed),
            "harnesses_inconclusive": len(inconclusive),
            "checker_cmd": "RUSTFLAGS='--cfg fir_verif' cargo kani --features prop_%s --harness <name> [flags per harness]" % prop.lower(),
            "trusted_base": TRUSTED,
            "solver_time_s": round(sum((r["time"] or 0) for r in results), 1),
            "functions_encoded": sorted(set(x.strip() for r in results for x in hs[r["name"]].get("enc", "").split(",") if x.strip())),
            "bounds": sorted(set(hs[r["name"]].get("bounds", "") for r in results)),
            "known_findings_hit": sorted(seen),
            "pregen": info,
            "exhaustive": False,
        },
        "assumptions": sorted(set(x.strip() for r in results for x in hs[r["name"]].get("assume", "").split(";") if x.strip())) + [
            "Kani models the dev profile (debug assertions and overflow checks on); release behaviour is observed only through native replay of counterexamples",
            "float NaN/overflow 'checks' of CBMC are not Rust panics and are ignored",
            "allocation never fails",
        ],
        "wall_s": round(time.time() - t0, 1),
        "violations": len(outcome["violations"]),
    }
    EVID.mkdir(exist_ok=True)
    (EVID / ("%s.json" % prop)).write_text(json.dumps(ev, indent=1))

    if not a.keep:
        shutil.rmtree(TGT / prop, ignore_errors=True)
        shutil.rmtree(TGT / ("playback-%s-dev" % prop), ignore_errors=True)
        shutil.rmtree(TGT / ("playback-%s-release" % prop), ignore_errors=True)

    log("[chk] %s tier=%s harnesses=%d ok=%d failed=%d inconclusive=%d wall=%.0fs" % (
        prop, tier, len(results), len([r for r in results if r["status"] == "ok"]), len(failed),
        len(inconclusive), time.time() - t0))
    if outcome["violations"]:
        sys.exit(1)
    if inconclusive:
        sys.exit(2)
    sys.exit(0)


if __name__ == "__main__":
    main()
