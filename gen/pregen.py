#!/usr/bin/env python3
"""Regenerates the harness instances of a property from /repo's current sources.

  pregen.py <PROP>      (env: VERIF_TIER, VERIF_SEED)

1. builds /verif/native (fstage) against the current /repo with --cfg fir_verif and runs the
   REAL float stage (precompute_coefficients, Normalizer16/32::new) for the enumerated
   geometries;
2. computes the independent reference weights (reference/ideal.py);
3. writes kh/src/gen_<prop>.rs: one Kani harness per instance, constants inlined.

Prints `PREGEN-INFO {json}` (goes into the evidence file).
"""
import json
import os
import random
import subprocess
import sys
from pathlib import Path

V = Path(__file__).resolve().parent.parent
sys.path.insert(0, str(V / "reference"))
import ideal  # noqa: E402

KH = V / "kh"
NATIVE = V / "native"
TIER = os.environ.get("VERIF_TIER", "quick")
SEED = int(os.environ.get("VERIF_SEED", "0"))

PIX = {  # name: (component type, components, max, normaliser)
    "U8": ("u8", 1, 255, 16), "U8x2": ("u8", 2, 255, 16), "U8x3": ("u8", 3, 255, 16), "U8x4": ("u8", 4, 255, 16),
    "U16": ("u16", 1, 65535, 32), "U16x2": ("u16", 2, 65535, 32), "U16x3": ("u16", 3, 65535, 32),
    "U16x4": ("u16", 4, 65535, 32),
}
PIX_ALL = dict(PIX)
PIX_ALL.update({"I32": ("i32", 1, 0, 0), "F32": ("f32", 1, 0, 0), "F32x2": ("f32", 2, 0, 0),
                "F32x3": ("f32", 3, 0, 0), "F32x4": ("f32", 4, 0, 0)})
CSIZE = {"u8": 1, "u16": 2, "i32": 4, "f32": 4}
CPUS = ["None", "Sse4_1", "Avx2"]
FILTERS = ["Box", "Bilinear", "Hamming", "CatmullRom", "Mitchell", "Gaussian", "Lanczos3"]


# ---------------------------------------------------------------------------------------------
# float stage of the real code
# ---------------------------------------------------------------------------------------------

def build_native():
    env = dict(os.environ)
    env["RUSTFLAGS"] = "--cfg fir_verif"
    env["CARGO_NET_OFFLINE"] = "true"
    r = subprocess.run(["cargo", "build", "--offline", "--release", "--bin", "fstage", "--bin", "x86_selftest"],
                       cwd=NATIVE, env=env, capture_output=True, text=True)
    if r.returncode != 0:
        print(r.stdout[-3000:], r.stderr[-6000:])
        raise SystemExit("pregen: native helper crate does not build against /repo")


def fstage(geoms):
    """geoms: {id: (in_size, in0, in1, out_size, filter, adaptive)} -> real outputs"""
    inp = "".join("%s %d %r %r %d %s %d\n" % (k, g[0], float(g[1]), float(g[2]), g[3], g[4], 1 if g[5] else 0)
                  for k, g in geoms.items())
    r = subprocess.run([str(NATIVE / "target/release/fstage")], input=inp, capture_output=True, text=True)
    if r.returncode != 0:
        print(r.stderr[-4000:])
        raise SystemExit("pregen: fstage failed (the real float stage panicked?)")
    return json.loads(r.stdout)


# ---------------------------------------------------------------------------------------------
# geometry sets
# ---------------------------------------------------------------------------------------------

def geometries(tier, seed, max_in=12):
    """1-D geometries (in_size, in0, in1, out_size, filter, adaptive)."""
    g = {
        "bil_8_3": (8, 0, 8, 3, "Bilinear", True),
        "lan_5c_7": (5, 0.5, 4.5, 7, "Lanczos3", True),
        "box_12_2": (12, 0, 12, 2, "Box", True),
        "cat_9e_4": (9, 2, 9, 4, "CatmullRom", True),
        "ham_7_5i": (7, 0, 7, 5, "Hamming", False),
        "gau_10_3": (10, 0, 10, 3, "Gaussian", True),
    }
    if tier == "thorough":
        g.update({
            "mit_11_4": (11, 0, 11, 4, "Mitchell", True),
            "lan_12_5": (12, 0, 12, 5, "Lanczos3", True),
            "lan_6_9": (6, 0, 6, 9, "Lanczos3", True),
            "bil_3_8": (3, 0, 3, 8, "Bilinear", True),
            "box_9c_4": (9, 1.25, 8.75, 4, "Box", True),
            "box_5_7": (5, 0, 5, 7, "Box", True),
            "ham_12_5": (12, 0, 12, 5, "Hamming", True),
            "cat_4_9": (4, 0, 4, 9, "CatmullRom", True),
            "gau_5_6": (5, 0, 5, 6, "Gaussian", True),
            "mit_8s_3": (8, 6.5, 7.75, 3, "Mitchell", True),   # sub-pixel-ish crop near the right edge
            "bil_10e_3i": (10, 7.5, 10, 3, "Bilinear", False),  # edge flush, interpolation
            "lan_1_4": (1, 0, 1, 4, "Lanczos3", True),          # one-pixel source
            "cat_12_1": (12, 0, 12, 1, "CatmullRom", True),     # one-pixel destination
            "bil_12_7": (12, 0, 12, 7, "Bilinear", True),
            "lan_9c_6": (9, 0.3, 8.9, 6, "Lanczos3", True),
            "gau_12_2": (12, 0, 12, 2, "Gaussian", True),
        })
        rnd = random.Random(1000 + seed)
        for k in range(8):
            n = rnd.randint(2, max_in)
            a = rnd.choice([0, 0, rnd.uniform(0, n / 3)])
            b = rnd.choice([n, n, rnd.uniform(a + 0.7, n)])
            o = rnd.randint(1, 8)
            f = rnd.choice(FILTERS)
            g["rnd%d_%s" % (k, f[:3].lower())] = (n, round(a, 3), round(b, 3), o, f, rnd.random() < 0.8)
    return g


def sparse_coeffs(n, precision, wide, salt=0):
    """Synthetic coefficient window (not from any filter): distinct values with at most two set
    bits, mixed signs, within the interface invariant the kernels rely on
    (|c| < 2^15 resp. 2^31, sum|c| < 2*2^p so that the 8-bit clip table index stays in range).
    Multiplications by such constants are cheap for the SAT back end while every tap still
    has its own value, so a dropped / swapped / mis-extended tap changes the result."""
    lim = (1 << 31) - 1 if wide else (1 << 15) - 1
    rnd = random.Random(n * 131 + precision * 7 + salt)
    one = 1 << precision
    base = max(1, min(lim // 2, one // max(1, n)))
    hb = base.bit_length() - 1
    vals = []
    for i in range(n):
        k = max(0, hb - rnd.randint(0, 2))
        v = 1 << k
        if k > 0 and rnd.random() < 0.6:
            v += 1 << rnd.randint(0, k - 1)
        if i % 3 == 1:
            v = -max(1, v // 2)
        vals.append(max(-lim, min(lim, v)))
    if n >= 2:
        # make neighbours differ
        for i in range(1, n):
            if vals[i] == vals[i - 1]:
                vals[i] += 1 if vals[i] < lim else -1
    assert sum(abs(v) for v in vals) < 2 * one, (vals, precision)
    return vals


# ---------------------------------------------------------------------------------------------
# Rust emission
# ---------------------------------------------------------------------------------------------

def hash_name(name):
    import zlib
    return zlib.crc32(name.encode()) + SEED * 7919


def rs_bounds(bounds):
    return "&[" + ", ".join("(%d, %d)" % (s, n) for s, n in bounds) + "]"


def rs_coeffs(coeffs):
    return "&[" + ", ".join("&[" + ", ".join(str(c) for c in row) + "]" for row in coeffs) + "]"


def emit_k(inst):
    """One K-level harness. inst keys: name prop tier t pixel cpu dir sw sh dw dh offset precision
    bounds coeffs mode checks(bool) extra(str)"""
    ct, nc, mx, _ = PIX[inst["pixel"]]
    sw, sh, dw, dh = inst["sw"], inst["sh"], inst["dw"], inst["dh"]
    nsrc, ndst = sw * sh * nc, dw * dh * nc
    taps = max(n for _, n in inst["bounds"])
    loops = [taps, dw, dh, nc, len(inst["bounds"])]
    if inst["dir"] == "v":
        loops.append(dw * nc)  # tail loops over the components of a row
    if inst["mode"] in ("bounded", "monotone"):
        loops.append(nsrc)
    if inst["mode"] == "spec_taps":
        loops.append(max(len(r) for r in inst["ref_w40"]))
    if inst["mode"] == "uniform":
        loops.append(ndst)
    unwind = max(loops) + 2
    fn = {"h": "horiz", "v": "vert"}[inst["dir"]]
    flags = "stub --no-assertion-reach-checks"
    if not inst.get("checks", False):
        flags += " --no-memory-safety-checks --no-overflow-checks"
    enc = "verif_api::%s_convolution::<%s> -> <%s as Convolution>::%s_convolution (dispatch, %s kernel), Normalizer%d::new (injected), TypedImageRef/TypedImage row iterators" % (
        fn, inst["pixel"], inst["pixel"], fn, inst["cpu"], 16 if ct == "u8" else 32)
    bounds_txt = "symbolic: %s; enumerated: %s %s %s src %dx%d dst %dx%d offset %d precision %d windows %s; unwind %d" % (
        inst.get("symbolic", "all %d source components and the initial destination" % nsrc),
        inst["pixel"], inst["cpu"], fn, sw, sh, dw, dh, inst["offset"], inst["precision"],
        ",".join("%d+%d" % b for b in inst["bounds"]), unwind)
    head = "// @h %s | prop=%s | tier=%s | t=%d | mem=%d | flags=%s | enc=%s | bounds=%s | assume=%s\n" % (
        inst["name"], inst["prop"], inst["tier"], inst.get("t", 900), inst.get("mem", 8), flags, enc, bounds_txt,
        inst.get("assume", "x86 intrinsic models (x86_model.rs, differential-tested);coefficients injected at the Normalizer boundary"))
    pass_rs = "Pass { precision: %d, bounds: %s, coeffs: %s }" % (
        inst["precision"], rs_bounds(inst["bounds"]), rs_coeffs(inst["coeffs"]))
    body = []
    mode = inst["mode"]
    hot = inst.get("hot", 0)

    def src_decl(var="src"):
        """Either every component symbolic, or `hot` components at symbolic positions with symbolic
        values over a concrete pseudo-random background (bound stated in the annotation)."""
        if not hot:
            return ["let %s: [%s; %d] = kani::any();" % (var, ct, nsrc)]
        rnd = random.Random(hash_name(inst["name"]))
        corner = [0, mx, mx // 2, 1, mx - 1]
        bg = [rnd.choice(corner) if rnd.random() < 0.3 else rnd.randint(0, mx) for _ in range(nsrc)]
        out = ["let mut %s: [%s; %d] = [%s];" % (var, ct, nsrc, ", ".join(str(v) for v in bg))]
        if inst.get("hot_fixed"):
            # positions chosen by the generator (VERIF_SEED): only those multipliers stay symbolic
            for k, pos in enumerate(sorted(rnd.sample(range(nsrc), min(hot, nsrc)))):
                out.append("%s[%d] = kani::any();" % (var, pos))
            return out
        for k in range(hot):
            out.append("let i%d: usize = kani::any(); kani::assume(i%d < %d); %s[i%d] = kani::any();" % (k, k, nsrc, var, k))
        return out

    if hot:
        inst["symbolic"] = "%d source components at %s positions with symbolic values over a concrete pseudo-random background (all others fixed), and the initial destination" % (
            hot, "generator-chosen (seeded)" if inst.get("hot_fixed") else "symbolic")
    if mode == "spec":
        body += src_decl()
        body.append("let mut dst: [%s; %d] = kani::any();" % (ct, ndst))
        body.append("let pass = %s;" % pass_rs)
        body.append("check_%s::<%s>(CpuExtensions::%s, &src, %d, %d, &mut dst, %d, %d, %d, &pass);" % (
            fn, inst["pixel"], inst["cpu"], sw, sh, dw, dh, inst["offset"]))
    elif mode == "uniform":
        body.append("let v: %s = kani::any();" % ct)
        body.append("let src: [%s; %d] = [v; %d];" % (ct, nsrc, nsrc))
        body.append("let mut dst: [%s; %d] = kani::any();" % (ct, ndst))
        body.append("let pass = %s;" % pass_rs)
        body.append("run_%s::<%s>(CpuExtensions::%s, &src, %d, %d, &mut dst, %d, %d, %d, &pass);" % (
            fn, inst["pixel"], inst["cpu"], sw, sh, dw, dh, inst["offset"]))
        body.append("check_uniform(&dst, v);")
    elif mode == "bounded":
        body += src_decl()
        body.append("let mut dst: [%s; %d] = kani::any();" % (ct, ndst))
        body.append("let pass = %s;" % pass_rs)
        body.append("run_%s::<%s>(CpuExtensions::%s, &src, %d, %d, &mut dst, %d, %d, %d, &pass);" % (
            fn, inst["pixel"], inst["cpu"], sw, sh, dw, dh, inst["offset"]))
        body.append("check_bounded_%s::<%s>(&src, %d, %d, &dst, %d, %d, %d, &pass);" % (
            fn, inst["pixel"], sw, sh, dw, dh, inst["offset"]))
    elif mode == "monotone":
        body.append("let a: [%s; %d] = kani::any();" % (ct, nsrc))
        body.append("let c: [%s; %d] = kani::any();" % (ct, nsrc))
        body.append("let b = pointwise_max(&a, &c);")
        body.append("let mut da: [%s; %d] = kani::any();" % (ct, ndst))
        body.append("let mut db: [%s; %d] = kani::any();" % (ct, ndst))
        body.append("let pass = %s;" % pass_rs)
        body.append("run_%s::<%s>(CpuExtensions::%s, &a, %d, %d, &mut da, %d, %d, %d, &pass);" % (
            fn, inst["pixel"], inst["cpu"], sw, sh, dw, dh, inst["offset"]))
        body.append("run_%s::<%s>(CpuExtensions::%s, &b, %d, %d, &mut db, %d, %d, %d, &pass);" % (
            fn, inst["pixel"], inst["cpu"], sw, sh, dw, dh, inst["offset"]))
        body.append("check_monotone(&da, &db);")
    elif mode == "spec_taps":
        body += src_decl()
        body.append("let mut dst: [%s; %d] = kani::any();" % (ct, ndst))
        body.append("let pass = %s;" % pass_rs)
        body.append("check_taps(&pass, &%s, %s);" % (
            "[" + ", ".join(str(s_) for s_ in inst["ref_starts"]) + "]",
            "&[" + ", ".join("&[" + ", ".join("%di64" % v for v in row) + "]" for row in inst["ref_w40"]) + "]"))
        body.append("check_%s::<%s>(CpuExtensions::%s, &src, %d, %d, &mut dst, %d, %d, %d, &pass);" % (
            fn, inst["pixel"], inst["cpu"], sw, sh, dw, dh, inst["offset"]))
    elif mode == "ref":
        body += src_decl()
        body.append("let mut dst: [%s; %d] = kani::any();" % (ct, ndst))
        body.append("let pass = %s;" % pass_rs)
        body.append("run_%s::<%s>(CpuExtensions::%s, &src, %d, %d, &mut dst, %d, %d, %d, &pass);" % (
            fn, inst["pixel"], inst["cpu"], sw, sh, dw, dh, inst["offset"]))
        body.append("let refw = RefWeights { starts: &%s, weights: %s, budget: &%s };" % (
            "[" + ", ".join(str(s) for s in inst["ref_starts"]) + "]", rs_coeffs(inst["ref_weights"]),
            "[" + ", ".join(str(b) for b in inst["ref_budget"]) + "]"))
        body.append("check_ref_%s::<%s>(&src, %d, %d, &dst, %d, %d, %d, &refw);" % (
            fn, inst["pixel"], sw, sh, dw, dh, inst["offset"]))
    else:
        raise ValueError(mode)
    return head + "x86_proof! {\n    #[kani::unwind(%d)]\n    pub fn %s() {\n        %s\n    }\n}\n" % (
        unwind, inst["name"], "\n        ".join(body))


HEADER = """//! generated by gen/pregen.py from /repo's current float stage -- do not edit, not committed
#![allow(unused_imports)]
use crate::kern::*;
use fast_image_resize::pixels::*;
use fast_image_resize::CpuExtensions;

"""


def write_gen(prop, insts, extra=""):
    src = HEADER + extra + "\n".join(emit_k(i) for i in insts)
    (KH / "src" / ("gen_%s.rs" % prop.lower())).write_text(src)


# ---------------------------------------------------------------------------------------------
# instance families
# ---------------------------------------------------------------------------------------------

def windows_for(real, pixel):
    """(precision, bounds, coeffs) of the real normaliser output for the pixel class."""
    key = "16" if PIX[pixel][3] == 16 else "32"
    ch = real["c" + key]
    return real["p" + key], [(s, len(c)) for s, c in ch], [c for _, c in ch]


def h_inst(prop, name, tier, pixel, cpu, precision, bounds, coeffs, rows, offset, mode, **kw):
    sw = max(s + n for s, n in bounds)
    sw = max(sw, kw.pop("min_sw", 0))
    return dict(name=name, prop=prop, tier=tier, pixel=pixel, cpu=cpu, dir="h", sw=sw, sh=rows + offset + kw.pop("extra_rows", 0),
                dw=len(bounds), dh=rows, offset=offset, precision=precision, bounds=bounds, coeffs=coeffs, mode=mode, **kw)


def v_inst(prop, name, tier, pixel, cpu, precision, bounds, coeffs, cols, offset, mode, **kw):
    sh = max(s + n for s, n in bounds)
    return dict(name=name, prop=prop, tier=tier, pixel=pixel, cpu=cpu, dir="v", sw=cols + offset + kw.pop("extra_cols", 0), sh=sh,
                dw=cols, dh=len(bounds), offset=offset, precision=precision, bounds=bounds, coeffs=coeffs, mode=mode, **kw)


def gen_c02(tier, seed):
    """SIMD kernels == fixed-point spec for all contents, over a residue matrix of synthetic windows."""
    insts = []
    rnd = random.Random(seed)

    def prec_for(pixel, i):
        table16 = [13, 14, 15, 16, 17, 18, 19, 20, 21, 12]
        table32 = [30, 31, 32, 33, 34, 35, 29, 36]
        t = table16 if PIX[pixel][3] == 16 else table32
        return t[(i + seed) % len(t)]

    k = 0
    for pixel in PIX:
        wide = PIX[pixel][3] == 32
        nc = PIX[pixel][1]
        for cpu in ("None", "Sse4_1", "Avx2"):
            # ---------------- horizontal
            # quick: 7 taps, rows 4+1 with offset 1 (four-row block + leftover row, non-zero offset)
            cases = [("q1", "quick", [5] if wide else [7], 1, 1, 1), ("q4", "quick", [3] if wide else [5], 4, 1, 1)]
            if tier == "thorough":
                cases += [("a", "thorough", [1, 2], 1, 0, 2), ("b", "thorough", [3, 5], 4, 0, 2),
                          ("c", "thorough", [8, 4], 2, 2, 2), ("d", "thorough", [9], 3, 1, 1),
                          ("e", "thorough", [15], 1, 0, 1), ("f", "thorough", [16], 4, 1, 1),
                          ("g", "thorough", [17, 6], 1, 1, 2), ("h", "thorough", [12], 5, 0, 1),
                          ("i", "thorough", [7], 5, 1, 1)]
            for tag, tr, taps_list, rows, offset, _ in cases:
                p = prec_for(pixel, k)
                k += 1
                bounds, coeffs = [], []
                maxend = max(taps_list) + (1 if len(taps_list) > 1 else 0)
                for j, n in enumerate(taps_list):
                    start = maxend - n if j == len(taps_list) - 1 else j  # last window flush with the row end
                    bounds.append((start, n))
                    coeffs.append(sparse_coeffs(n, p, wide, salt=k * 17 + j))
                insts.append(h_inst("C02", "c02_h_%s_%s_%s" % (pixel.lower(), cpu.lower(), tag), tr, pixel, cpu, p,
                                    bounds, coeffs, rows, offset, "spec", t=2400 if tr == "thorough" else 1500))
            # ---------------- vertical: row widths chosen to hit 32/16/8/4-byte chunks and the scalar tail
            csz = 1 if not wide else 2
            vcases = [("q", "quick", [3], {1: 13, 2: 7, 3: 5, 4: 5}[nc] if not wide else {1: 9, 2: 5, 3: 3, 4: 3}[nc], 1)]
            if tier == "thorough":
                vcases += [("a", "thorough", [1, 2], 3, 0), ("b", "thorough", [5], {1: 37, 2: 19, 3: 12, 4: 9}[nc] if not wide else {1: 19, 2: 9, 3: 6, 4: 5}[nc], 0),
                           ("c", "thorough", [2, 4], {1: 21, 2: 11, 3: 7, 4: 5}[nc] if not wide else {1: 11, 2: 5, 3: 4, 4: 3}[nc], 2)]
            for tag, tr, taps_list, cols, offset in vcases:
                p = prec_for(pixel, k)
                k += 1
                bounds, coeffs = [], []
                maxend = max(taps_list) + (1 if len(taps_list) > 1 else 0)
                for j, n in enumerate(taps_list):
                    start = maxend - n if j == len(taps_list) - 1 else j
                    bounds.append((start, n))
                    coeffs.append(sparse_coeffs(n, p, wide, salt=k * 19 + j))
                insts.append(v_inst("C02", "c02_v_%s_%s_%s" % (pixel.lower(), cpu.lower(), tag), tr, pixel, cpu, p,
                                    bounds, coeffs, cols, offset, "spec", t=2400 if tr == "thorough" else 1500))
    write_gen("C02", insts)
    return {"instances": len(insts), "family": "synthetic sparse coefficient windows (sum = 2^p), residue matrix over taps/rows/offset/row width"}


def real_insts(prop, tier, seed, pixels_quick, pixels_thorough, cpus_quick, cpus_thorough, mode, only_filters=None,
               max_full_taps=6, t=1200, quick_geoms=None):
    """K-level instances whose windows and integer coefficients come from the REAL float stage."""
    G = geometries(tier, seed)
    if only_filters:
        G = {k: g for k, g in G.items() if g[4] in only_filters}
    real = fstage(G)
    quick_ids = set(quick_geoms or list(geometries("quick", seed).keys()))
    if tier != "thorough":
        G = {k: g for k, g in G.items() if k in quick_ids}
    else:
        # keep a thorough run within ~2 h on 16 cores: the quick geometries, 5 of the fixed
        # ones (rotated by VERIF_SEED) and the seeded random ones
        fixed = [k for k in G if k not in quick_ids and not k.startswith("rnd") and k not in geometries("quick", seed)]
        rot = seed % max(1, len(fixed))
        keep = set(quick_ids) | set(geometries("quick", seed)) | set((fixed[rot:] + fixed[:rot])[:5]) | set([k for k in G if k.startswith("rnd")][:4])
        G = {k: g for k, g in G.items() if k in keep}
    insts = []
    skipped = []
    for gid, g in G.items():
        r = real[gid]
        if not r["c16"]:
            continue
        for pixel in (pixels_thorough if tier == "thorough" else pixels_quick):
            prec, bounds, coeffs = windows_for(r, pixel)
            if any(n == 0 for _, n in bounds):
                skipped.append((gid, pixel, "empty window"))
                continue
            taps = max(n for _, n in bounds)
            nc = PIX[pixel][1]
            for cpu in (cpus_thorough if tier == "thorough" else cpus_quick):
                for d in ("h", "v"):
                    tr = "quick" if (gid in quick_ids and pixel in pixels_quick and cpu in cpus_quick) else "thorough"
                    name = "%s_%s_%s_%s_%s" % (prop.lower(), d, pixel.lower(), cpu.lower(), gid)
                    kw = dict(t=t)
                    if mode in ("spec", "bounded", "ref") and taps * len(bounds) * nc > max_full_taps * 4:
                        kw["hot"] = 3
                    if mode == "monotone" and taps * len(bounds) * nc > 12:
                        continue  # monotone needs two full runs; only small windows
                    if d == "h":
                        insts.append(h_inst(prop, name, tr, pixel, cpu, prec, bounds, coeffs, 1, 0, mode, min_sw=g[0], **kw))
                    else:
                        cols = 1  # arithmetic properties: one column; chunked row paths are C02's job
                        insts.append(v_inst(prop, name, tr, pixel, cpu, prec, bounds, coeffs, cols, 0, mode, **kw))
                    insts[-1]["_gid"] = gid
    return G, real, insts, skipped


def gen_c10(tier, seed):
    G, real, insts, skipped = real_insts("C10", tier, seed, ["U8", "U16"], ["U8", "U8x3", "U8x4", "U16"],
                                         ["None", "Avx2"], CPUS, "uniform", t=1500, quick_geoms=["bil_8_3", "lan_5c_7", "box_12_2"])
    # premise of the arithmetic lemma, checked concretely on the real chunks: sum(c) = 2^p + e, |e| * max < 2^(p-1)
    premise = {}
    for gid, r in real.items():
        for key, mx in (("16", 255), ("32", 65535)):
            p = r["p" + key]
            worst = max((abs(sum(c) - (1 << p)) for _, c in r["c" + key]), default=0)
            premise["%s/%s" % (gid, key)] = {"precision": p, "max_abs_e": worst, "holds": worst * mx < (1 << (p - 1))}
    for i in insts:
        if i["pixel"].startswith("U16"):
            i["mem"] = 14
            i["t"] = 2400
            if not (i["cpu"] == "None" and i["_gid"] in ("bil_8_3", "box_12_2")):
                i["tier"] = "thorough"
    if tier != "thorough":
        insts = [i for i in insts if i["tier"] == "quick"]
    write_gen("C10", insts)
    return {"instances": len(insts), "geometries": {k: list(v) for k, v in G.items()}, "partition_premise": premise,
            "skipped": skipped}


def gen_c18(tier, seed):
    G, real, insts, skipped = real_insts("C18", tier, seed, ["U8", "U16"], ["U8", "U8x4", "U16"],
                                         ["None", "Sse4_1"], CPUS, "bounded", only_filters=ideal.NONNEG, t=1500, quick_geoms=["bil_8_3", "ham_7_5i"])
    G2, real2, insts2, _ = real_insts("C18", tier, seed, ["U8"], ["U8", "U16"], ["None"], ["None", "Avx2"], "monotone",
                                      only_filters=ideal.NONNEG, t=1500, quick_geoms=["bil_8_3", "ham_7_5i"])
    for i in insts2:
        i["name"] = i["name"].replace("c18_", "c18m_", 1)
    nonneg = {gid: all(c >= 0 for key in ("c16", "c32") for _, row in r[key] for c in row) for gid, r in real.items()}
    for i in insts + insts2:
        if i["pixel"].startswith("U16"):
            # 16-bit min/max bounds with dense real coefficients: > 20 min per instance
            i["tier"] = "thorough"
            i["t"] = 3600
            i["hot"] = i.get("hot") or (4 if i["mode"] == "bounded" else 0)
            i["hot_fixed"] = True
    if tier != "thorough":
        insts = [i for i in insts if i["tier"] == "quick"]
        insts2 = [i for i in insts2 if i["tier"] == "quick"]
    write_gen("C18", insts + insts2)
    return {"instances": len(insts) + len(insts2), "geometries": {k: list(v) for k, v in G.items()},
            "all_real_coefficients_nonnegative": nonneg, "skipped": skipped}


def gen_c01(tier, seed):
    G, real, insts, skipped = real_insts("C01", tier, seed, ["U8", "U16"], ["U8", "U8x4", "U16", "U16x2"],
                                         ["None"], ["None", "Sse4_1", "Avx2"], "ref", t=1800, quick_geoms=["bil_8_3", "lan_5c_7", "cat_9e_4"])
    out = []
    diag = {}
    for inst in insts:
        g = G[inst["_gid"]]
        ct, nc, mx, norm = PIX[inst["pixel"]]
        r = real[inst["_gid"]]
        prec = r["p%d" % norm]
        ref = ideal.ideal_weights(*g)
        starts, weights, budget, w40s = [], [], [], []
        bad = False
        for x, (w, fuzzy) in enumerate(ref):
            if fuzzy or not w:
                bad = True
                break
            lo, hi = min(w), max(w)
            # reference window must cover the real window (taps the real code uses outside it count as weight 0)
            rs, rn = inst["bounds"][x]
            lo, hi = min(lo, rs), max(hi, rs + rn - 1)
            row = [int(round(w.get(i, 0.0) * (1 << 24))) for i in range(lo, hi + 1)]
            w40s.append([int(round(w.get(i, 0.0) * (1 << 40))) for i in range(lo, hi + 1)])
            n = len(row)
            allowed = n * (2.0 ** -(prec + 1) + 2.0 ** -40)
            b = int((0.5 + mx * allowed) * (1 << 24)) + mx * n // 2 + 4
            starts.append(lo)
            weights.append(row)
            budget.append(b)
            # concrete diagnostic: actual quantisation error of the real chunks
            realrow = {rs + i: c / float(1 << prec) for i, c in enumerate(inst["coeffs"][x])}
            e = sum(abs(realrow.get(i, 0.0) - w.get(i, 0.0)) for i in set(realrow) | set(w))
            diag.setdefault(inst["_gid"] + "/" + str(norm), []).append(round(e * (1 << prec), 3))
        if bad:
            skipped.append((inst["name"], "a sample centre sits on a kernel discontinuity (ideal weight undefined)"))
            continue
        inst["ref_starts"], inst["ref_weights"], inst["ref_budget"] = starts, weights, budget
        inst["ref_w40"] = w40s
        if not (inst["pixel"] == "U8" and inst["_gid"] == "bil_8_3"):
            # The content-quantified closeness bound costs ~7 min per U8 instance and does not finish
            # for the others (a numeric inequality between two different linear forms is the worst
            # case for SAT).  Elsewhere it is decided in two steps: kernel == fixed-point spec of its own
            # coefficients (structural, for all contents) and per-tap closeness of the real
            # coefficients to the ideal weights (constants); the bound follows by the triangle
            # inequality (kern.rs::check_taps).
            inst["mode"] = "spec_taps"
            # dense real coefficients: full-symbolic rows cost 17+ min (U8 Lanczos 5->7); use 4 (2 for
            # 16-bit) symbolic components at generator-chosen positions over a fixed background
            nsrc_ = inst["sw"] * inst["sh"] * PIX[inst["pixel"]][1]
            inst["hot"] = 2 if (inst["pixel"].startswith("U16") or nsrc_ <= 8) else 4
            inst["hot_fixed"] = True
            if inst["pixel"].startswith("U16"):
                # dense 32-bit coefficients x 16-bit data: > 25 min even with 4 symbolic components
                inst["tier"] = "thorough"
                inst["t"] = 5400
        inst["t"] = 2400
        # the reference window may be wider than the real one: make the source wide enough
        need = max(s + len(wt) for s, wt in zip(starts, weights))
        if inst["dir"] == "h":
            inst["sw"] = max(inst["sw"], need)
        else:
            inst["sh"] = max(inst["sh"], need)
        out.append(inst)
    if tier != "thorough":
        out = [i for i in out if i["tier"] == "quick"]
    write_gen("C01", out)
    return {"instances": len(out), "geometries": {k: list(v) for k, v in G.items()},
            "quantisation_error_in_units_of_2^-p_per_window": diag, "skipped": skipped}


# ---------------------------------------------------------------------------------------------
# P-level (pipeline) instances: Resizer::resize_typed with injected float stage
# ---------------------------------------------------------------------------------------------

PHEADER = """//! generated by gen/pregen.py from /repo's current float stage -- do not edit, not committed
#![allow(unused_imports, unused_mut, unused_variables)]
use crate::kern::*;
use crate::pipe::*;
use fast_image_resize::images::*;
use fast_image_resize::pixels::*;
use fast_image_resize::verif_api;
use fast_image_resize::*;

"""


def alg_rs(alg):
    kind = alg[0]
    if kind == "Nearest":
        return "ResizeAlg::Nearest"
    if kind == "SuperSampling":
        return "ResizeAlg::SuperSampling(FilterType::%s, %d)" % (alg[1], alg[2])
    return "ResizeAlg::%s(FilterType::%s)" % (kind, alg[1])


def f64_rs(v):
    r = repr(float(v))
    return r if ("." in r or "e" in r or "inf" in r or "nan" in r) else r + ".0"


def pipe_keys(inst):
    """Which 1-D float stages does do_convolution run for this instance (replicates only the
    documented need_horizontal / need_vertical decision; the harness asserts that exactly these
    were consumed, so a wrong replica shows up as a failed assertion, never as a silent pass)."""
    sw, sh, dw, dh = inst["sw"], inst["sh"], inst["dw"], inst["dh"]
    l, t, cw, ch = inst.get("crop") or (0, 0, sw, sh)
    alg = inst["alg"]
    inst["_crop"] = (l, t, cw, ch)
    same = (float(dw) == cw and float(dh) == ch and l == round(l) and t == round(t) and cw == round(cw) and ch == round(ch))
    inst["_same"] = same
    if same or alg[0] == "Nearest":
        return None, None
    if alg[0] == "SuperSampling" and inst.get("expect") == "nearest":
        # documented two-step: nearest-neighbour to round(crop/factor), then convolution; here the
        # intermediate has exactly the destination size, so the second step must be a plain copy
        factor = min(cw / dw, ch / dh) / alg[2]
        assert factor > 1.2 and round(cw / factor) == dw and round(ch / factor) == dh, "not an intermediate==dst case"
        inst["_ss_bytes"] = dw * dh
        return None, None
    adaptive = alg[0] != "Interpolation"
    need_h = float(dw) != cw or l != round(l)
    need_v = float(dh) != ch or t != round(t)
    hk = (sw, l, l + cw, dw, alg[1], adaptive) if need_h else None
    vk = (sh, t, t + ch, dh, alg[1], adaptive) if need_v else None
    return hk, vk


def emit_p(inst, real):
    """Pipeline harness.  inst: name prop tier pixel cpu sw sh dw dh crop alg alpha dst(kind,pw,ph,dl,dt,spare)
    check: 'full' (rect == spec, outside unchanged) ..."""
    ct, nc, mx, _ = PIX_ALL[inst["pixel"]]
    P = inst["pixel"]
    sw, sh, dw, dh = inst["sw"], inst["sh"], inst["dw"], inst["dh"]
    l, t, cw, ch = inst["_crop"]
    hk, vk = inst["_hk"], inst["_vk"]
    dk = inst.get("dst", ("exact",))
    if dk[0] == "exact":
        pw, ph, dl, dt, spare = dw, dh, 0, 0, 0
    elif dk[0] == "long":
        pw, ph, dl, dt, spare = dw, dh, 0, 0, dk[1]
    else:
        _, pw, ph, dl, dt = dk
        spare = 0
    nsrc = sw * sh * nc
    ndst = pw * ph * nc + spare * nc
    passes = {}
    taps = 1
    for tag, key in (("h", hk), ("v", vk)):
        if key is None:
            passes[tag] = ("None", 0)
            continue
        r = real[inst["_ids"][tag]]
        prec, bounds, coeffs = windows_for(r, P)
        if inst.get("simple_coeffs", True):
            # P-level obligations are about the glue (which pixels are read/written, pass order,
            # bound shifting, buffers), not the arithmetic (decided at K level with the real
            # coefficients): keep the REAL window bounds, replace the weights by powers of two
            # summing to 2^p so that the SAT problem stays small.
            prec = 14 if PIX_ALL[P][3] == 16 else 20
            coeffs = []
            for _, n in bounds:
                row = [1 << (prec - 1 - i) for i in range(n - 1)]
                row.append((1 << prec) - sum(row))
                if n >= 2 and prec - n - 1 >= 0:
                    d = 1 << (prec - n - 1)   # make all taps distinct (<= 2 set bits each)
                    row[0] += d
                    row[-1] -= d
                coeffs.append(row)
        taps = max(taps, max(n for _, n in bounds))
        passes[tag] = ("Some(Pass { precision: %d, bounds: %s, coeffs: %s })" % (prec, rs_bounds(bounds), rs_coeffs(coeffs)), r["window_size"])
    size = nc * CSIZE[ct]
    # scratch buffers: pre-sized (symbolic content) unless the instance asks for the growth path
    temp_px = 0
    if hk is not None and vk is not None:
        if ct == "u8":
            hb = real[inst["_ids"]["h"]]["c16"]
            x_first = hb[0][0]
            x_last = hb[-1][0] + len(hb[-1][1])
            temp_px = (x_last - x_first) * dh
        else:
            vb = real[inst["_ids"]["v"]]["c32"]
            y_first = vb[0][0]
            y_last = vb[-1][0] + len(vb[-1][1])
            temp_px = dw * (y_last - y_first)
    conv_bytes = temp_px * size + size if temp_px else 0
    alpha_bytes = sw * sh * size + size if inst.get("alpha") and nc in (2, 4) else 0
    grow = inst.get("grow", False)
    scratch = inst.get("scratch_extra", 0)
    loops = [taps, sw, sh, dw, dh, pw, ph, nc, spare * nc]
    if vk is not None:
        # the vertical kernels loop over the components of a destination row (and over 16/8/4-wide chunks)
        rowc = max(dw, sw if (hk is not None and ct == "u8") else dw) * nc
        loops += [rowc, 16 if rowc >= 16 else 0]
    if inst.get("src", ("typed_ref",))[0] == "owned":
        loops.append(sw * sh)
    if grow:
        loops += [conv_bytes, alpha_bytes]
    unwind = max(loops) + 2
    flags = "stub --no-assertion-reach-checks"
    if not inst.get("checks", False):
        flags += " --no-memory-safety-checks --no-overflow-checks"
    enc = "Resizer::resize_typed -> CroppedSrcImageView::crop, copy_image, %s, %s kernels (%s), get_temp_image_from_buffer, %s destination" % (
        {"Nearest": "resample_nearest"}.get(inst["alg"][0], "resample_convolution/do_convolution (pass order, bound shifting)" if inst["alg"][0] != "SuperSampling" else "resample_super_sampling + resample_nearest + do_convolution"),
        P, inst["cpu"], dk[0])
    btxt = "symbolic: all %d source components and all %d destination-buffer components; enumerated: %s %s src %dx%d crop %s dst %dx%d (%s) alg %s alpha %s; float stage injected (real window bounds H %s V %s; weights %s); unwind %d" % (
        nsrc, ndst, P, inst["cpu"], sw, sh, inst.get("crop"), dw, dh, " ".join(str(x) for x in dk), "/".join(str(a) for a in inst["alg"]),
        inst.get("alpha", False), hk is not None, vk is not None,
        "synthetic powers of two summing to 2^p" if inst.get("simple_coeffs", True) else "real quantised weights", unwind)
    head = "// @h %s | prop=%s | tier=%s | t=%d | mem=%d | flags=%s | enc=%s | bounds=%s | assume=x86 intrinsic models (x86_model.rs, differential-tested);coefficient windows and integer coefficients injected from a native run of the real float stage\n" % (
        inst["name"], inst["prop"], inst["tier"], inst.get("t", 1500), inst.get("mem", 8), flags, enc, btxt)
    b = []
    sk = inst.get("src", ("typed_ref",))
    if sk[0] == "cropped":
        _, spw, sph, sl, st = sk
        b.append("let sparent: [%s; %d] = kani::any();" % (ct, spw * sph * nc))
        b.append("let src: [%s; %d] = extract_region(&sparent, %d, %d, %d, %d, %d, %d);" % (ct, nsrc, nc, spw, sl, st, sw, sh))
    else:
        b.append("let src: [%s; %d] = kani::any();" % (ct, nsrc))
    b.append("let mut dbuf: [%s; %d] = kani::any();" % (ct, ndst))
    b.append("let old = dbuf;")
    b.append("let pipe = Pipe { h_geom: (%d, %d), v_geom: (%d, %d), h: %s, v: %s, h_ws: %d, v_ws: %d };" % (sw, dw, sh, dh, passes["h"][0], passes["v"][0], passes["h"][1], passes["v"][1]))
    b.append("pipe.inject::<%s>();" % P)
    opts = "ResizeOptions::new().resize_alg(%s).use_alpha(%s)" % (alg_rs(inst["alg"]), "true" if inst.get("alpha") else "false")
    if inst.get("crop"):
        opts += ".crop(%s, %s, %s, %s)" % tuple(f64_rs(v) for v in inst["crop"])
    b.append("let opts = %s;" % opts)
    b.append("let res = {")
    if sk[0] == "cropped":
        b.append("    let sparent_img = TypedImageRef::<%s>::new(%d, %d, as_pixels::<%s>(&sparent)).unwrap();" % (P, spw, sph, P))
        b.append("    let src_img = TypedCroppedImage::from_ref(&sparent_img, %d, %d, %d, %d).unwrap();" % (sl, st, sw, sh))
    elif sk[0] == "nested":
        b.append("    let s0 = TypedImageRef::<%s>::new(%d, %d, as_pixels::<%s>(&src)).unwrap();" % (P, sw, sh, P))
        b.append("    let s1 = TypedCroppedImage::from_ref(&s0, 0, 0, %d, %d).unwrap();" % (sw, sh))
        b.append("    let src_img = TypedCroppedImage::from_ref(&s1, 0, 0, %d, %d).unwrap();" % (sw, sh))
    elif sk[0] == "owned":
        b.append("    let src_img = TypedImage::<%s>::from_pixels(%d, %d, as_pixels::<%s>(&src).to_vec()).unwrap();" % (P, sw, sh, P))
    else:
        b.append("    let src_img = TypedImageRef::<%s>::new(%d, %d, as_pixels::<%s>(&src)).unwrap();" % (P, sw, sh, P))
    if dk[0] == "cropped":
        b.append("    let mut parent = TypedImage::<%s>::from_pixels_slice(%d, %d, as_pixels_mut::<%s>(&mut dbuf)).unwrap();" % (P, pw, ph, P))
        b.append("    let mut dst_img = TypedCroppedImageMut::from_ref(&mut parent, %d, %d, %d, %d).unwrap();" % (dl, dt, dw, dh))
    else:
        b.append("    let mut dst_img = TypedImage::<%s>::from_pixels_slice(%d, %d, as_pixels_mut::<%s>(&mut dbuf)).unwrap();" % (P, dw, dh, P))
    if grow:
        b.append("    let mut rz = new_resizer(CpuExtensions::%s);" % inst["cpu"])
    else:
        ss_bytes = inst.get("_ss_bytes", 0) * size + (size if inst.get("_ss_bytes") else 0)
        b.append("    let mut rz = resizer_with_scratch::<%d, %d, %d>(CpuExtensions::%s);" % (
            alpha_bytes + (scratch if alpha_bytes else 0), conv_bytes + (scratch if conv_bytes else 0), ss_bytes, inst["cpu"]))
    b.append("    rz.resize_typed(&src_img, &mut dst_img, &opts)")
    b.append("};")
    b.append('assert!(res.is_ok(), "P: a valid resize returns Ok");')
    b.append('assert!(verif_api::injected_pending() == (0, 0), "P: exactly the expected passes were computed (no resampling along a dimension that matches)");')
    if (inst["alg"][0] == "Nearest" or inst.get("expect") == "nearest") and not (hk is None and vk is None and inst.get("_same")):
        ix, ixa, iy, iya = [], [], [], []
        for x in range(dw):
            f, near, alt = ideal.nearest_index(l, cw, dw, x)
            ix.append(f)
            ixa.append(alt if near else f)
        for y in range(dh):
            f, near, alt = ideal.nearest_index(t, ch, dh, y)
            iy.append(f)
            iya.append(alt if near else f)
        arr = lambda v: "[" + ", ".join(str(max(0, k)) for k in v) + "]"
        b.append("check_nearest(&dbuf, &old, %d, %d, %d, %d, %d, %d, %d, &src, %d, %d, &%s, &%s, &%s, &%s);" % (
            nc, pw, ph, dl, dt, dw, dh, sw, sh, arr(ix), arr(ixa), arr(iy), arr(iya)))
        inst["_nearest_idx"] = (ix, iy)
        return head + "x86_proof! {\n    #[kani::unwind(%d)]\n    pub fn %s() {\n        %s\n    }\n}\n" % (
            unwind, inst["name"], "\n        ".join(b))
    ntmp = max(sw * dh, dw * sh) * nc
    b.append("let mut ea = [0i64; %d];" % (dw * dh * nc))
    b.append("let mut eb = [0i64; %d];" % (dw * dh * nc))
    b.append("let mut tmp = [W(0); %d];" % ntmp)
    b.append("spec_pipeline(&src, %d, %d, %d, %d, %d, %d, %d, &pipe, true, &mut ea, &mut tmp);" % (sw, sh, nc, dw, dh, int(l), int(t)))
    b.append("spec_pipeline(&src, %d, %d, %d, %d, %d, %d, %d, &pipe, false, &mut eb, &mut tmp);" % (sw, sh, nc, dw, dh, int(l), int(t)))
    b.append("check_rect_and_outside(&dbuf, &old, %d, %d, %d, %d, %d, %d, %d, &ea, &eb);" % (nc, pw, ph, dl, dt, dw, dh))
    return head + "x86_proof! {\n    #[kani::unwind(%d)]\n    pub fn %s() {\n        %s\n    }\n}\n" % (
        unwind, inst["name"], "\n        ".join(b))


def finish_p(prop, insts, extra_src=""):
    geoms = {}
    for inst in insts:
        hk, vk = pipe_keys(inst)
        inst["_hk"], inst["_vk"] = hk, vk
        inst["_ids"] = {}
        for tag, key in (("h", hk), ("v", vk)):
            if key is not None:
                gid = "g%d" % (len(geoms) if key not in geoms.values() else list(geoms.values()).index(key))
                if key not in geoms.values():
                    geoms[gid] = key
                inst["_ids"][tag] = gid
    real = fstage(geoms) if geoms else {}
    src = PHEADER + extra_src + "\n".join(emit_p(i, real) for i in insts)
    (KH / "src" / ("gen_%s.rs" % prop.lower())).write_text(src)
    return real


def gen_c05(tier, seed):
    insts = []
    def add(name, tr, pixel, cpu, sw, sh, dw, dh, crop, alg, dst, **kw):
        insts.append(dict(name="c05_" + name, prop="C05", tier=tr, pixel=pixel, cpu=cpu, sw=sw, sh=sh, dw=dw, dh=dh,
                          crop=crop, alg=alg, dst=dst, **kw))
    # two-pass into a cropped view strictly inside a larger parent
    add("conv2_u8_none_cropped", "quick", "U8", "None", 4, 4, 2, 2, None, ("Convolution", "Bilinear"), ("cropped", 4, 4, 1, 1))
    # horizontal-only with integer crop top > 0 into an over-long buffer (spare rows must stay untouched)
    add("h_u8x2_none_long", "quick", "U8x2", "None", 4, 5, 2, 3, (0, 1, 4, 3), ("Convolution", "Bilinear"), ("long", 4))
    # vertical-only into a cropped view
    # (14 min: thorough only; the vertical pass into a cropped view is also part of the two-pass instance above)
    add("v_u8_none_cropped", "thorough", "U8", "None", 2, 4, 2, 2, None, ("Convolution", "Bilinear"), ("cropped", 3, 3, 1, 1), mem=16, t=3000)
    add("v_u8_sse4_exact", "thorough", "U8", "Sse4_1", 3, 4, 3, 2, None, ("Convolution", "Bilinear"), ("exact",), mem=16, t=3000)
    # horizontal-only SIMD into a cropped view that is not flush with the parent's bottom, 5 rows
    # (the source has rows below the crop box and the parent has rows below the view: a leftover-row loop that
    #  runs too far has both something to read and somewhere to write)
    add("h_u8_sse4_cropped_5rows", "quick", "U8", "Sse4_1", 3, 8, 2, 5, (0, 1, 3, 5), ("Convolution", "Bilinear"), ("cropped", 4, 8, 1, 1), mem=14)
    # 16-bit two-pass, exact buffer
    add("conv2_u16_none_exact", "quick", "U16", "None", 3, 3, 2, 2, None, ("Convolution", "Bilinear"), ("exact",))
    write = finish_p("C05", insts)
    return {"instances": len(insts)}


def gen_c06(tier, seed):
    """Instances of c06::run_case.  One symbolic pixel at an enumerated position; the alpha axis
    of the 16-bit portable divide is sliced (65536-entry table with a symbolic index)."""
    chunk = {("U8x4", "Sse4_1"): 4, ("U8x4", "Avx2"): 8, ("U8x2", "Sse4_1"): 8, ("U8x2", "Avx2"): 16,
             ("U16x2", "Sse4_1"): 4, ("U16x2", "Avx2"): 8, ("U16x4", "Sse4_1"): 2, ("U16x4", "Avx2"): 4}
    lines = []
    rnd = random.Random(4242 + seed)
    slices_quick = [0, 1, 255] + sorted(rnd.sample(range(2, 255), 2))
    for P in ("U8x2", "U8x4", "U16x2", "U16x4"):
        N = PIX[P][1]
        wide = PIX[P][3] == 32
        mx = PIX[P][2]
        for cpu in CPUS:
            K = 2 if cpu == "None" else chunk[(P, cpu)] + 1
            positions = list(range(K))
            qpos = {0, K - 1} if cpu == "None" else {0, K - 2, K - 1}   # first lane, last lane of the chunk, remainder
            for op in ("MulInplace", "Mul", "DivInplace", "Div"):
                is_div = op.startswith("Div")
                for pos in positions:
                    if cpu == "None":
                        quick = op in ("MulInplace", "Div") or pos == 0
                    else:
                        quick = op in ("MulInplace", "Div") and pos in (0, K - 1)
                        if wide and is_div and (pos != 0 or P == "U16x4"):
                            # 16-bit SIMD divide: U16x2 at one lane position in the quick tier (U16x4 needs 5-12 min
                            # per harness; known findings make each failing harness cost a replay)
                            quick = False
                    if wide and is_div and cpu == "None":
                        # alpha axis sliced: [0,255] whole (contains alpha = 1), elsewhere 16-wide slices
                        # (a 256-wide slice of large alphas did not finish in 15 min)
                        narrow_q = [(65520, 65535), (32768, 32783)] + [(b * 256 + o, b * 256 + o + 15) for b, o in
                                                                        ((rnd.randint(1, 254), rnd.randint(0, 240)) for _ in range(2))]
                        if op == "DivInplace" and pos == 0:
                            sl = [(0, 255)] + narrow_q
                            if tier == "thorough":
                                r2 = random.Random(99 + seed)
                                sl += [(b * 256 + o, b * 256 + o + 15) for b in range(1, 256) for o in [r2.randint(0, 240)]]
                        else:
                            sl = [(0, 255)]
                        for lo, hi in sl:
                            q = quick and (op == "DivInplace" or pos == 0) and ((lo, hi) == (0, 255))
                            lines.append(("c06_%s_none_%s_i%d_a%d" % (P.lower(), op.lower(), pos, lo), "quick" if q else "thorough", P, K, N, cpu, op, pos, lo, hi))
                    elif wide and is_div:
                        for lo, hi in ((0, 255), (256, 65535)):
                            lines.append(("c06_%s_%s_%s_i%d_a%d" % (P.lower(), cpu.lower(), op.lower(), pos, lo), "quick" if quick and lo == 0 else "thorough", P, K, N, cpu, op, pos, lo, hi))
                        # nearly opaque pixel inside a nearly opaque row (all-opaque shortcuts)
                        # (16 alphas only: the 256-wide slice did not finish in 30 min on the unchanged tree)
                        lines.append(("c06_%s_%s_%s_i%d_opq" % (P.lower(), cpu.lower(), op.lower(), pos), "thorough", P, K, N, cpu, op, pos, 65520, 65535, True))
                        # quick: one fixed, nearly opaque alpha (0xff80) with symbolic colours - a constant divisor keeps
                        # the float division cheap (the 16-alpha slice needs > 17 min)
                        lines.append(("c06_%s_%s_%s_i%d_opq1" % (P.lower(), cpu.lower(), op.lower(), pos), "quick" if quick and pos == 0 else "thorough", P, K, N, cpu, op, pos, 65408, 65408, True))
                    else:
                        lines.append(("c06_%s_%s_%s_i%d" % (P.lower(), cpu.lower(), op.lower(), pos), "quick" if quick else "thorough", P, K, N, cpu, op, pos, 0, mx))
                        if cpu != "None" and is_div:
                            lines.append(("c06_%s_%s_%s_i%d_opq" % (P.lower(), cpu.lower(), op.lower(), pos), "quick" if quick and pos == 0 else "thorough", P, K, N, cpu, op, pos, mx - 15, mx, True))
    src = ["//! generated by gen/pregen.py -- do not edit, not committed", "#![allow(unused_imports)]",
           "use crate::c06::*;", "use fast_image_resize::pixels::*;", "use fast_image_resize::CpuExtensions;", ""]
    n_inst = 0
    for line in lines:
        (name, tr, P, K, N, cpu, op, pos, lo, hi) = line[:10]
        opaque = len(line) > 10 and line[10]
        if tier != "thorough" and tr != "quick":
            continue
        n_inst += 1
        enc = "MulDiv::%s_typed::<%s> -> AlphaMulDiv impl, alpha::%s::{%s} kernels, alpha::common::{mul_div_*, div_and_clip*, RECIP_ALPHA*}" % (
            {"MulInplace": "multiply_alpha_inplace", "Mul": "multiply_alpha", "DivInplace": "divide_alpha_inplace", "Div": "divide_alpha"}[op],
            P, P.lower(), "native" if cpu == "None" else cpu.lower())
        bnd = "symbolic: all %d components of pixel %d of a 1x%d row (alpha in %d..=%d), other pixels fixed%s; enumerated: %s %s %s position %d; unwind %d" % (
            N, pos, K, lo, hi, " with alpha max..max-2 (nearly opaque row)" if opaque else "", P, cpu, op, pos, K * N + 2)
        src.append("// @h %s | prop=C06 | tier=%s | t=1800 | mem=4 | flags=stub --no-assertion-reach-checks | enc=%s | bounds=%s | assume=x86 intrinsic models (x86_model.rs, differential-tested)" % (name, tr, enc, bnd))
        src.append("c06!(%s, %s, %d, %d, %s, %s, %d, %d, %d, %s, %d);" % (name, P, K, N, cpu, op, pos, lo, hi, "true" if opaque else "false", K * N + 2))
    (KH / "src" / "gen_c06.rs").write_text("\n".join(src) + "\n")
    return {"instances": n_inst, "alpha_slices": sorted(set((l[8], l[9]) for l in lines if l[6].startswith("Div") and l[5] == "None" and l[2].startswith("U16")))[:40]}


def p_add(insts, prop, name, tr, pixel, cpu, sw, sh, dw, dh, crop, alg, dst=("exact",), **kw):
    insts.append(dict(name="%s_%s" % (prop.lower(), name), prop=prop, tier=tr, pixel=pixel, cpu=cpu, sw=sw, sh=sh, dw=dw, dh=dh,
                      crop=crop, alg=alg, dst=dst, **kw))


def gen_c11(tier, seed):
    insts = []
    N = ("Nearest",)
    p_add(insts, "C11", "u8_up_crop", "quick", "U8", "None", 4, 3, 5, 4, (0.5, 0.25, 3.0, 2.5), N)
    p_add(insts, "C11", "u8x3_down_edge", "quick", "U8x3", "None", 5, 4, 2, 2, (2.5, 1.5, 2.5, 2.5), N, ("cropped", 4, 4, 1, 1))
    p_add(insts, "C11", "f32_subpixel_edge", "quick", "F32", "None", 4, 4, 3, 2, (3.75, 3.5, 0.25, 0.5), N)
    p_add(insts, "C11", "u16x2_whole", "quick", "U16x2", "None", 3, 5, 4, 2, None, N, ("long", 3))
    if tier == "thorough":
        rnd = random.Random(77 + seed)
        types = list(PIX_ALL)
        for k in range(14):
            sw, sh, dw, dh = rnd.randint(1, 6), rnd.randint(1, 6), rnd.randint(1, 7), rnd.randint(1, 7)
            kind = k % 4
            if kind == 0:
                crop = None
            elif kind == 1:
                l, t = rnd.randint(0, sw - 1), rnd.randint(0, sh - 1)
                crop = (l, t, sw - l, sh - t)
            elif kind == 2:
                l = rnd.choice([0.25, 0.5, 0.75]) if sw > 1 else 0.25
                t = rnd.choice([0.125, 0.5]) if sh > 1 else 0.5
                crop = (l, t, sw - l - rnd.choice([0, 0.25]) if sw - l > 0.5 else sw - l, sh - t)
            else:
                crop = (sw - 0.375, sh - 0.25, 0.375, 0.25)   # sub-pixel box flush with the far corner
            p_add(insts, "C11", "t%d_%s" % (k, types[k % 13].lower()), "thorough", types[k % 13], "None", sw, sh, dw, dh, crop, N)
    finish_p("C11", insts)
    return {"instances": len(insts), "indices": {i["name"]: i.get("_nearest_idx") for i in insts}}


def gen_c12(tier, seed):
    insts = []
    # same size as an integer crop: every algorithm must be an exact copy
    p_add(insts, "C12", "copy_u8x4_conv", "quick", "U8x4", "None", 4, 4, 2, 3, (1, 1, 2, 3), ("Convolution", "Lanczos3"), ("cropped", 4, 4, 1, 0))
    p_add(insts, "C12", "copy_f32x3_ss", "quick", "F32x3", "None", 3, 3, 3, 3, None, ("SuperSampling", "Bilinear", 2))
    p_add(insts, "C12", "copy_u16_nearest_alpha", "quick", "U16x2", "Sse4_1", 3, 2, 2, 2, (1, 0, 2, 2), ("Nearest",), alpha=True)
    # one matching dimension: no resampling along it
    p_add(insts, "C12", "width_same_u8", "quick", "U8", "None", 3, 4, 3, 2, None, ("Convolution", "Bilinear"))
    # SuperSampling whose nearest-neighbour intermediate happens to have the destination size
    p_add(insts, "C12", "ss_intermediate_is_dst_u8", "quick", "U8", "None", 4, 4, 2, 2, None, ("SuperSampling", "Box", 1), expect="nearest")
    p_add(insts, "C12", "ss_width_same_u8", "quick", "U8", "None", 2, 6, 2, 2, None, ("SuperSampling", "Box", 1))
    # crop sizes that are NOT equal to the destination size, only close to it: the pass must run
    p_add(insts, "C12", "near_width_u8", "quick", "U8", "None", 4, 2, 3, 2, (1, 0, 2.6, 2), ("Convolution", "Bilinear"))
    p_add(insts, "C12", "almost_width_u8", "quick", "U8", "None", 4, 2, 3, 2, (1, 0, 2.9999999999999996, 2), ("Convolution", "Bilinear"))
    p_add(insts, "C12", "height_same_u16_crop", "quick", "U16", "None", 5, 4, 2, 2, (1, 1, 4, 2), ("Interpolation", "Bilinear"))
    if tier == "thorough":
        k = 0
        for pixel in PIX_ALL:
            alg = [("Convolution", "Box"), ("Interpolation", "CatmullRom"), ("SuperSampling", "Hamming", 1), ("Nearest",)][k % 4]
            p_add(insts, "C12", "copy_t_%s" % pixel.lower(), "thorough", pixel, ["None", "Sse4_1", "Avx2"][k % 3], 4, 3, 3, 2,
                  (1, 1, 3, 2), alg, ("long", 2) if k % 2 else ("exact",), alpha=(k % 2 == 0))
            k += 1
        p_add(insts, "C12", "width_same_u8x4_avx2", "thorough", "U8x4", "Avx2", 2, 5, 2, 3, (0, 1, 2, 4), ("Convolution", "Bilinear"))
        p_add(insts, "C12", "height_same_u16x3_sse4", "thorough", "U16x3", "Sse4_1", 5, 2, 3, 2, None, ("Convolution", "Hamming"))
    finish_p("C12", insts)
    return {"instances": len(insts)}


def gen_c13(tier, seed):
    insts = []
    C = ("Convolution", "Bilinear")
    # same logical operation (4x3 -> 2x2) through different containers / placements
    # single-pass geometries keep the SAT problem small; the two-pass glue is C05's subject
    p_add(insts, "C13", "src_cropped_interior_u8", "quick", "U8", "None", 4, 3, 2, 2, None, C, ("exact",), src=("cropped", 6, 5, 1, 1), mem=14)
    p_add(insts, "C13", "src_cropped_flush_u8x4_sse4", "quick", "U8x4", "Sse4_1", 4, 2, 2, 2, None, C, ("cropped", 4, 3, 2, 1), src=("cropped", 5, 3, 1, 1), mem=14)
    p_add(insts, "C13", "src_nested_u16x2", "quick", "U16x2", "None", 3, 3, 3, 2, None, C, ("long", 2), src=("nested",), mem=14)
    p_add(insts, "C13", "src_owned_f32_nearest", "quick", "F32", "None", 4, 3, 2, 2, None, ("Nearest",), ("cropped", 3, 3, 1, 1), src=("owned",))
    if tier == "thorough":
        p_add(insts, "C13", "src_cropped_flush_u8x3_avx2", "thorough", "U8x3", "Avx2", 4, 3, 2, 2, None, C, ("exact",), src=("cropped", 5, 4, 1, 1), mem=20, t=3600)
        p_add(insts, "C13", "src_cropped_u16_avx2", "thorough", "U16", "Avx2", 4, 3, 2, 2, (0.5, 0, 3, 3), C, ("cropped", 4, 4, 1, 2), src=("cropped", 6, 4, 2, 1), mem=20, t=3600)
        p_add(insts, "C13", "src_owned_u8x2", "thorough", "U8x2", "Sse4_1", 4, 3, 2, 2, None, C, ("exact",), src=("owned",))
        p_add(insts, "C13", "src_cropped_u16x4_nearest", "thorough", "U16x4", "None", 3, 3, 4, 2, (0.5, 0.5, 2, 2), ("Nearest",), ("exact",), src=("cropped", 4, 5, 1, 2))
    rel = """// @h c13_rel_nearest_view_vs_owned | prop=C13 | tier=quick | t=1200 | mem=8 | flags=stub --no-assertion-reach-checks --no-memory-safety-checks --no-overflow-checks | enc=Resizer::resize_typed x2 -> resample_nearest, ImageView::iter_rows_with_step (default impl for TypedCroppedImage, specialisation for TypedImageRef) | bounds=symbolic: all 6 parent pixels (U8) and both destinations; enumerated: view 1x4 at (0,1) of a 1x6 parent vs an owned copy of the same region, Nearest to 1x7 (a destination centre falls exactly on a source row boundary); unwind 9 | assume=none
x86_proof! {
    #[kani::unwind(9)]
    pub fn c13_rel_nearest_view_vs_owned() {
        let parent: [u8; 6] = kani::any();
        let region: [u8; 4] = extract_region(&parent, 1, 1, 0, 1, 1, 4);
        let mut da: [u8; 7] = kani::any();
        let mut db: [u8; 7] = kani::any();
        let opts = ResizeOptions::new().resize_alg(ResizeAlg::Nearest);
        let mut rz = new_resizer(CpuExtensions::None);
        assert!(run_resize::<U8>(&mut rz, &region, 1, 4, &mut da, 1, 7, &opts), "P: a valid resize returns Ok");
        {
            let pimg = TypedImageRef::<U8>::new(1, 6, as_pixels::<U8>(&parent)).unwrap();
            let view = TypedCroppedImage::from_ref(&pimg, 0, 1, 1, 4).unwrap();
            let mut dimg = TypedImage::<U8>::from_pixels_slice(1, 7, as_pixels_mut::<U8>(&mut db)).unwrap();
            assert!(rz.resize_typed(&view, &mut dimg, &opts).is_ok(), "P: a valid resize returns Ok");
        }
        let mut i = 0;
        while i < 7 {
            assert!(da[i] == db[i], "C13: a cropped view and an owned copy of the same region give identical destination pixels");
            i += 1;
        }
    }
}
"""
    finish_p("C13", insts, extra_src=rel)
    return {"instances": len(insts) + 1}


def gen_c03(tier, seed):
    """Memory safety / panic freedom: the same harness families with ALL default checks on
    (pointer validity against exact allocation extents, overflow, unreachable, unwrap)."""
    insts = []
    N = ("Nearest",)
    # nearest with sub-pixel crop boxes flush against the right/bottom edge (table index in range)
    p_add(insts, "C03", "nearest_edge_flush_u8", "quick", "U8", "None", 4, 3, 1, 1, (3.9999998, 2.5, 0.0000002, 0.5), N, checks=True)
    p_add(insts, "C03", "nearest_edge_flush_u16x3", "quick", "U16x3", "None", 3, 2, 2, 2, (2.75, 1.75, 0.25, 0.25), N, ("cropped", 3, 3, 1, 1), checks=True)
    p_add(insts, "C03", "conv_1px_u8x4_sse4", "quick", "U8x4", "Sse4_1", 1, 1, 2, 2, None, ("Convolution", "Lanczos3"), checks=True)
    p_add(insts, "C03", "conv_edge_subpixel_u8", "quick", "U8", "None", 4, 4, 1, 2, (3.5, 0, 0.5, 4), ("Convolution", "Bilinear"), checks=True)
    if tier == "thorough":
        p_add(insts, "C03", "conv_1px_u16_avx2", "thorough", "U16", "Avx2", 1, 1, 3, 1, None, ("Convolution", "CatmullRom"), checks=True)
        p_add(insts, "C03", "conv_strided_u8x3_avx2", "thorough", "U8x3", "Avx2", 4, 3, 2, 2, None, ("Convolution", "Bilinear"), ("cropped", 4, 3, 2, 1), src=("cropped", 5, 4, 1, 1), checks=True)
        p_add(insts, "C03", "interp_u16x4_sse4", "thorough", "U16x4", "Sse4_1", 3, 3, 2, 2, (0.5, 0.5, 2.5, 2.5), ("Interpolation", "Mitchell"), checks=True)
        p_add(insts, "C03", "nearest_grow_f32x4", "thorough", "F32x4", "None", 2, 2, 3, 3, (0.5, 0.5, 1.5, 1.5), N, checks=True)
    real = finish_p("C03", insts)
    # K-level kernels with all checks on, buffers ending exactly at the last pixel
    kinsts = []
    k = 0
    for pixel in PIX:
        wide = PIX[pixel][3] == 32
        for cpu in CPUS:
            quick = (pixel, cpu) in {("U8x4", "Avx2"), ("U8", "Sse4_1"), ("U16x2", "Avx2"), ("U8x3", "None"), ("U16", "None"), ("U8x2", "Sse4_1")}
            if tier != "thorough" and not quick:
                continue
            p = (16 if not wide else 32)
            k += 1
            taps = [4, 3]
            bounds, coeffs = [(0, 4), (2, 3)], [sparse_coeffs(4, p, wide, k), sparse_coeffs(3, p, wide, k + 1)]
            kinsts.append(h_inst("C03", "c03_kh_%s_%s" % (pixel.lower(), cpu.lower()), "quick" if quick else "thorough", pixel, cpu, p,
                                 bounds, coeffs, 5, 1, "spec", checks=True, hot=2, t=1800))
            nc = PIX[pixel][1]
            cols = {1: 9, 2: 5, 3: 3, 4: 3}[nc] if not wide else {1: 5, 2: 3, 3: 2, 4: 2}[nc]
            kinsts.append(v_inst("C03", "c03_kv_%s_%s" % (pixel.lower(), cpu.lower()), "quick" if quick else "thorough", pixel, cpu, p,
                                 bounds, coeffs, cols, 1, "spec", checks=True, hot=2, t=1800))
    # window invariant of the real float stage for the enumerated (edge) geometries, checked concretely
    G = geometries("thorough", seed)
    G.update({"edge_sub": (6, 5.9999, 6, 2, "Lanczos3", True), "edge_den": (5, 4.0, 4.000000001, 3, "Bilinear", True),
              "one_px": (1, 0, 1, 5, "Gaussian", True), "tiny_crop": (9, 3.3, 3.3000001, 1, "CatmullRom", True)})
    realg = fstage(G)
    inv = {}
    for gid, r in realg.items():
        ok = True
        for key, lim in (("16", 1 << 15), ("32", 1 << 31)):
            p = r["p" + key]
            for st, c in r["c" + key]:
                if st + len(c) > G[gid][0] or any(abs(v) >= lim for v in c) or not (1 <= p <= (21 if key == "16" else 45)) or p == 11:
                    ok = False
                if sum(abs(v) for v in c) >= 4 * (1 << p):
                    ok = False
        inv[gid] = ok
    extra = "".join(emit_k(i) for i in kinsts)
    path = KH / "src" / "gen_c03.rs"
    path.write_text(path.read_text() + "\n" + extra)
    return {"instances": len(insts) + len(kinsts), "window_invariant_holds": inv, "all_invariants_hold": all(inv.values())}


def emit_rel(inst, real):
    """Relational pipeline harness: two runs of resize_typed whose results must coincide.
    kind 'alpha_hidden' (C07): sources differ only in colour under alpha = 0.
    kind 'alpha_opaque' (C07): all alpha = max, run with use_alpha(true) vs use_alpha(false).
    kind 'reuse' (C09): fresh Resizer vs Resizer with arbitrary scratch state."""
    ct, nc, mx, _ = PIX_ALL[inst["pixel"]]
    P = inst["pixel"]
    sw, sh, dw, dh = inst["sw"], inst["sh"], inst["dw"], inst["dh"]
    l, t, cw, ch = inst["_crop"]
    hk, vk = inst["_hk"], inst["_vk"]
    nsrc, ndst = sw * sh * nc, dw * dh * nc
    size = nc * CSIZE[ct]
    passes, taps = {}, 1
    for tag, key in (("h", hk), ("v", vk)):
        if key is None:
            passes[tag] = ("None", 0)
            continue
        r = real[inst["_ids"][tag]]
        prec, bounds, coeffs = windows_for(r, P)
        prec = 14 if PIX_ALL[P][3] == 16 else 20
        coeffs = []
        for _, n in bounds:
            row = [1 << (prec - 1 - i) for i in range(n - 1)]
            row.append((1 << prec) - sum(row))
            if n >= 2 and prec - n - 1 >= 0:
                d = 1 << (prec - n - 1)
                row[0] += d
                row[-1] -= d
            coeffs.append(row)
        taps = max(taps, max(n for _, n in bounds))
        passes[tag] = ("Some(Pass { precision: %d, bounds: %s, coeffs: %s })" % (prec, rs_bounds(bounds), rs_coeffs(coeffs)), r["window_size"])
    temp_px = 0
    if hk is not None and vk is not None:
        if ct == "u8":
            hb = real[inst["_ids"]["h"]]["c16"]
            temp_px = (hb[-1][0] + len(hb[-1][1]) - hb[0][0]) * dh
        else:
            vb = real[inst["_ids"]["v"]]["c32"]
            temp_px = dw * (vb[-1][0] + len(vb[-1][1]) - vb[0][0])
    conv_bytes = temp_px * size + size if temp_px else 0
    alpha_bytes = sw * sh * size + size if inst.get("alpha", True) and nc in (2, 4) else 0
    kind = inst["kind"]
    extra = inst.get("scratch_extra", 0)
    loops = [taps, sw, sh, dw, dh, nc, nsrc // nc, ndst]
    if vk is not None:
        rowc = max(dw, sw) * nc
        loops += [rowc, 16 if rowc >= 16 else 0]
    if kind == "reuse":
        loops += [conv_bytes, alpha_bytes]
    unwind = max(loops) + 2
    flags = "stub --no-assertion-reach-checks --no-memory-safety-checks --no-overflow-checks"
    enc = "Resizer::resize_typed x2 -> resample_convolution (alpha premultiply into scratch, do_convolution, divide in place), MulDiv::{multiply_alpha_typed, divide_alpha_inplace_typed}, get_temp_image_from_buffer, %s kernels (%s)" % (P, inst["cpu"])
    btxt = "symbolic: all %d source components (%s), all destination components; enumerated: %s %s src %dx%d crop %s dst %dx%d alg %s; real window bounds, synthetic power-of-two weights; unwind %d" % (
        nsrc, {"alpha_hidden": "plus a second colour set used only under alpha = 0", "alpha_opaque": "alpha forced to max",
               "reuse": "plus symbolic content of the three scratch buffers (%d/%d bytes)" % (alpha_bytes + extra, conv_bytes + extra)}[kind],
        P, inst["cpu"], sw, sh, inst.get("crop"), dw, dh, "/".join(str(a) for a in inst["alg"]), unwind)
    head = "// @h %s | prop=%s | tier=%s | t=%d | mem=%d | flags=%s | enc=%s | bounds=%s | assume=x86 intrinsic models (x86_model.rs, differential-tested);coefficient windows injected from a native run of the real float stage\n" % (
        inst["name"], inst["prop"], inst["tier"], inst.get("t", 2400), inst.get("mem", 8), flags, enc, btxt)
    opts = "ResizeOptions::new().resize_alg(%s)" % alg_rs(inst["alg"])
    if inst.get("crop"):
        opts += ".crop(%s, %s, %s, %s)" % tuple(f64_rs(v) for v in inst["crop"])
    b = []
    b.append("let pipe = Pipe { h_geom: (%d, %d), v_geom: (%d, %d), h: %s, v: %s, h_ws: %d, v_ws: %d };" % (sw, dw, sh, dh, passes["h"][0], passes["v"][0], passes["h"][1], passes["v"][1]))
    b.append("let a: [%s; %d] = kani::any();" % (ct, nsrc))
    b.append("let mut da: [%s; %d] = kani::any();" % (ct, ndst))
    b.append("let mut db: [%s; %d] = kani::any();" % (ct, ndst))
    scratch = "resizer_with_scratch::<%d, %d, 0>(CpuExtensions::%s)" % (alpha_bytes + extra, conv_bytes + extra, inst["cpu"])
    if inst.get("short_conv"):
        scratch = "resizer_with_short_conv::<%d, %d, %d>(CpuExtensions::%s)" % (alpha_bytes + extra, conv_bytes + extra, inst["short_conv"], inst["cpu"])
    if kind == "alpha_hidden":
        b.append("let c: [%s; %d] = kani::any();" % (ct, nsrc))
        b.append("let b = hide_under_zero_alpha(&a, &c, %d);" % nc)
        b.append("let opts = %s.use_alpha(true);" % opts)
        b.append("let mut rz = %s;" % scratch)
        b.append("pipe.inject::<%s>();" % P)
        b.append('assert!(run_resize::<%s>(&mut rz, &a, %d, %d, &mut da, %d, %d, &opts), "P: a valid resize returns Ok");' % (P, sw, sh, dw, dh))
        b.append("pipe.inject::<%s>();" % P)
        b.append('assert!(run_resize::<%s>(&mut rz, &b, %d, %d, &mut db, %d, %d, &opts), "P: a valid resize returns Ok");' % (P, sw, sh, dw, dh))
        b.append('check_same(&da, &db, "");')
        # zero alpha => zero colour; alpha channel resampled as a plain channel
        b.append("let mut ea = [0i64; %d];" % ndst)
        b.append("let mut eb = [0i64; %d];" % ndst)
        b.append("let mut tmp = [W(0); %d];" % (max(sw * dh, dw * sh) * nc))
        b.append("spec_pipeline(&a, %d, %d, %d, %d, %d, %d, %d, &pipe, true, &mut ea, &mut tmp);" % (sw, sh, nc, dw, dh, int(l), int(t)))
        b.append("spec_pipeline(&a, %d, %d, %d, %d, %d, %d, %d, &pipe, false, &mut eb, &mut tmp);" % (sw, sh, nc, dw, dh, int(l), int(t)))
        b.append("let mut p = 0;")
        b.append("while p < %d {" % (dw * dh))
        b.append("    let al = da[p * %d + %d] as i64;" % (nc, nc - 1))
        b.append('    assert!(al == ea[p * %d + %d] || al == eb[p * %d + %d], "C07: the alpha channel is resampled as a plain channel");' % (nc, nc - 1, nc, nc - 1))
        b.append("    let mut k = 0;")
        b.append("    while k < %d {" % (nc - 1))
        b.append('        assert!(al != 0 || da[p * %d + k] == 0, "C07: a destination pixel with alpha zero has zero colour");' % nc)
        b.append("        k += 1;")
        b.append("    }")
        b.append("    p += 1;")
        b.append("}")
    elif kind == "alpha_opaque":
        b.append("let mut s = a;")
        b.append("let mut p = 0;")
        b.append("while p < %d { s[p * %d + %d] = %d; p += 1; }" % (sw * sh, nc, nc - 1, mx))
        b.append("let mut rz = %s;" % scratch)
        b.append("let o1 = %s.use_alpha(true);" % opts)
        b.append("let o2 = %s.use_alpha(false);" % opts)
        b.append("pipe.inject::<%s>();" % P)
        b.append('assert!(run_resize::<%s>(&mut rz, &s, %d, %d, &mut da, %d, %d, &o1), "P: a valid resize returns Ok");' % (P, sw, sh, dw, dh))
        b.append("pipe.inject::<%s>();" % P)
        b.append('assert!(run_resize::<%s>(&mut rz, &s, %d, %d, &mut db, %d, %d, &o2), "P: a valid resize returns Ok");' % (P, sw, sh, dw, dh))
        b.append('check_same(&da, &db, "");')
    else:  # reuse
        b.append("let opts = %s.use_alpha(%s);" % (opts, "true" if inst.get("alpha", True) else "false"))
        b.append("let mut fresh = new_resizer(CpuExtensions::%s);" % inst["cpu"])
        b.append("let mut used = %s;" % scratch)
        b.append("pipe.inject::<%s>();" % P)
        b.append('assert!(run_resize::<%s>(&mut fresh, &a, %d, %d, &mut da, %d, %d, &opts), "P: a valid resize returns Ok");' % (P, sw, sh, dw, dh))
        b.append("pipe.inject::<%s>();" % P)
        b.append('assert!(run_resize::<%s>(&mut used, &a, %d, %d, &mut db, %d, %d, &opts), "P: a valid resize returns Ok");' % (P, sw, sh, dw, dh))
        b.append('check_same(&da, &db, "");')
    return head + "x86_proof! {\n    #[kani::unwind(%d)]\n    pub fn %s() {\n        %s\n    }\n}\n" % (
        unwind, inst["name"], "\n        ".join(b))


def finish_rel(prop, insts):
    geoms = {}
    for inst in insts:
        hk, vk = pipe_keys(inst)
        inst["_hk"], inst["_vk"] = hk, vk
        inst["_ids"] = {}
        for tag, key in (("h", hk), ("v", vk)):
            if key is not None:
                if key not in geoms.values():
                    geoms["g%d" % len(geoms)] = key
                inst["_ids"][tag] = [k for k, v in geoms.items() if v == key][0]
    real = fstage(geoms) if geoms else {}
    src = PHEADER + "\n".join(emit_rel(i, real) for i in insts)
    (KH / "src" / ("gen_%s.rs" % prop.lower())).write_text(src)


def gen_c07(tier, seed):
    insts = []
    B = ("Convolution", "Bilinear")
    def add(name, tr, kind, pixel, cpu, sw, sh, dw, dh, crop, alg=B, **kw):
        insts.append(dict(name="c07_" + name, prop="C07", tier=tr, kind=kind, pixel=pixel, cpu=cpu, sw=sw, sh=sh, dw=dw, dh=dh,
                          crop=crop, alg=alg, **kw))
    # crop strictly inside the row: the filter window reaches pixels outside the crop box
    add("hidden_u8x2_crop", "quick", "alpha_hidden", "U8x2", "None", 4, 1, 1, 1, (1, 0, 2, 1))
    add("hidden_u8x4_v", "quick", "alpha_hidden", "U8x4", "None", 1, 3, 1, 2, None)
    add("opaque_u8x2", "quick", "alpha_opaque", "U8x2", "None", 3, 1, 2, 1, None)
    add("opaque_u16x2", "quick", "alpha_opaque", "U16x2", "None", 3, 1, 2, 1, None)
    if tier == "thorough":
        add("hidden_u16x2_crop", "thorough", "alpha_hidden", "U16x2", "None", 4, 1, 1, 1, (1, 0, 2, 1))
        add("hidden_u8x4_sse4", "thorough", "alpha_hidden", "U8x4", "Sse4_1", 3, 1, 2, 1, None)
        add("hidden_u8x2_2pass", "thorough", "alpha_hidden", "U8x2", "None", 2, 2, 1, 1, None)
        add("opaque_u8x4_avx2", "thorough", "alpha_opaque", "U8x4", "Avx2", 3, 1, 2, 1, None)
        add("opaque_u16x4", "thorough", "alpha_opaque", "U16x4", "None", 1, 3, 1, 2, None)
        add("hidden_u8x2_interp", "thorough", "alpha_hidden", "U8x2", "None", 4, 1, 2, 1, (1, 0, 2.5, 1), alg=("Interpolation", "Bilinear"))
    finish_rel("C07", insts)
    return {"instances": len(insts)}


def gen_c09(tier, seed):
    insts = []
    B = ("Convolution", "Bilinear")
    def add(name, tr, pixel, cpu, sw, sh, dw, dh, crop, alg=B, **kw):
        insts.append(dict(name="c09_" + name, prop="C09", tier=tr, kind="reuse", pixel=pixel, cpu=cpu, sw=sw, sh=sh, dw=dw, dh=dh,
                          crop=crop, alg=alg, **kw))
    # alpha scratch with stale content, crop away from the edges, vertical down-scale x4 (window leaves the crop)
    add("alpha_u8x2_crop_v", "quick", "U8x2", "None", 1, 10, 1, 1, (0, 3, 1, 4))
    # two-pass without alpha: intermediate-pass scratch, exact and over-sized
    add("conv2_u8_exact", "quick", "U8", "None", 3, 3, 2, 2, None, alpha=False)
    add("conv2_u8_larger", "quick", "U8", "None", 3, 3, 2, 2, None, alpha=False, scratch_extra=3)
    # scratch whose LENGTH is shorter than the temporary image (not just shorter than image + alignment
    # gap) while its capacity is large enough
    add("conv2_u8_len_lt_capacity", "quick", "U8", "None", 3, 3, 2, 2, None, alpha=False, short_conv=3)
    if tier == "thorough":
        add("conv2_u16_larger", "thorough", "U16", "None", 3, 3, 2, 2, None, alpha=False, scratch_extra=3, mem=20, t=3600)
        add("alpha_u16x2_crop_h", "thorough", "U16x2", "None", 10, 1, 1, 1, (3, 0, 4, 1))
        add("conv2_u8x3_larger", "thorough", "U8x3", "None", 3, 3, 2, 2, None, alpha=False, scratch_extra=5)
        add("alpha_u8x4_sse4", "thorough", "U8x4", "Sse4_1", 3, 2, 2, 1, None)
        add("conv2_u16x2_avx2", "thorough", "U16x2", "Avx2", 3, 3, 2, 2, None, alpha=False, scratch_extra=2)
    finish_rel("C09", insts)
    return {"instances": len(insts)}


def main():
    prop = sys.argv[1].upper()
    fn = globals().get("gen_" + prop.lower())
    if not fn:
        print("PREGEN-INFO {}")
        return
    build_native()
    # the intrinsic models must agree with this CPU before any SIMD obligation is run
    env = dict(os.environ)
    env["SELFTEST_N"] = "5000" if TIER == "quick" else "50000"
    r = subprocess.run([str(NATIVE / "target/release/x86_selftest")], capture_output=True, text=True, env=env)
    if r.returncode != 0:
        print(r.stdout[-2000:], r.stderr[-2000:])
        raise SystemExit("pregen: x86 intrinsic model self-test FAILED - refusing to run SIMD obligations")
    info = fn(TIER, SEED)
    gen_file = KH / "src" / ("gen_%s.rs" % prop.lower())
    if gen_file.exists():
        import re as _re
        names = _re.findall(r"pub fn (\w+)\(\)", gen_file.read_text())
        dup = sorted(set(n for n in names if names.count(n) > 1))
        if dup:
            raise SystemExit("pregen: duplicate harness names %s" % dup)
    info["x86_selftest"] = r.stdout.strip().splitlines()[-1]
    print("PREGEN-INFO " + json.dumps(info))


if __name__ == "__main__":
    main()
