//! C04 Geometry validation accepts exactly the regions that lie inside the image.
use crate::common::*;
use fast_image_resize::images::*;
use fast_image_resize::pixels::*;
use fast_image_resize::*;

// ---------------------------------------------------------------------------
// (a) integer rectangles: all six constructors that go through check_crop_box
// ---------------------------------------------------------------------------

/// Oracle for `Result<_, CropBoxError>` of a u32 rectangle inside a W x H image.
/// All arithmetic in u64, so nothing can wrap.
fn judge_u32_rect(
    res: Result<(), CropBoxError>,
    iw: u32,
    ih: u32,
    l: u32,
    t: u32,
    w: u32,
    h: u32,
) {
    let inside = (l as u64 + w as u64 <= iw as u64) && (t as u64 + h as u64 <= ih as u64);
    let pos_ok = l < iw && t < ih;
    let accepted = res.is_ok();
    // soundness: whatever is accepted lies inside (this is what the unchecked row slicing trusts)
    assert!(!accepted || inside, "C04a: accepted rectangle is not inside the image");
    // completeness: a rectangle inside the image with its origin inside is accepted
    // (an empty rectangle whose origin sits on the far edge may go either way)
    assert!(!(inside && pos_ok) || accepted, "C04a: rectangle inside the image rejected");
    // documented error kinds
    if let Err(e) = res {
        if !pos_ok {
            assert!(
                e == CropBoxError::PositionIsOutOfImageBoundaries,
                "C04a: wrong error kind for origin outside"
            );
        } else {
            assert!(
                e == CropBoxError::SizeIsOutOfImageBoundaries,
                "C04a: wrong error kind for size outside"
            );
        }
    }
    kani::cover!(accepted && w > 0 && h > 0, "accepted non-empty");
    kani::cover!(!accepted && pos_ok, "rejected for size");
    kani::cover!(!accepted && !pos_ok, "rejected for position");
    kani::cover!(
        l as u64 + w as u64 > u32::MAX as u64,
        "left+width exceeds u32"
    );
}

macro_rules! c04a {
    ($name:ident, |$iw:ident, $ih:ident, $l:ident, $t:ident, $w:ident, $h:ident| $call:expr) => {
        #[kani::proof]
        pub fn $name() {
            let $iw: u32 = kani::any();
            let $ih: u32 = kani::any();
            let $l: u32 = kani::any();
            let $t: u32 = kani::any();
            let $w: u32 = kani::any();
            let $h: u32 = kani::any();
            let res: Result<(), CropBoxError> = $call;
            judge_u32_rect(res, $iw, $ih, $l, $t, $w, $h);
        }
    };
}

// @h c04a_typed_cropped_from_ref | prop=C04 | tier=quick | t=300 | enc=TypedCroppedImage::from_ref -> images::typed_cropped_image::check_crop_box | bounds=symbolic: image size and rectangle, all u32^6; no loops
c04a!(c04a_typed_cropped_from_ref, |iw, ih, l, t, w, h| {
    let v = SizeOnlyView { w: iw, h: ih };
    TypedCroppedImage::from_ref(&v, l, t, w, h).map(|_| ())
});
// @h c04a_typed_cropped_new | prop=C04 | tier=quick | t=300 | enc=TypedCroppedImage::new -> check_crop_box | bounds=symbolic: image size and rectangle, all u32^6; no loops
c04a!(c04a_typed_cropped_new, |iw, ih, l, t, w, h| {
    let v = SizeOnlyView { w: iw, h: ih };
    TypedCroppedImage::new(v, l, t, w, h).map(|_| ())
});
// @h c04a_typed_cropped_mut_from_ref | prop=C04 | tier=quick | t=300 | enc=TypedCroppedImageMut::from_ref -> check_crop_box | bounds=symbolic: image size and rectangle, all u32^6; no loops
c04a!(c04a_typed_cropped_mut_from_ref, |iw, ih, l, t, w, h| {
    let mut v = SizeOnlyView { w: iw, h: ih };
    TypedCroppedImageMut::from_ref(&mut v, l, t, w, h).map(|_| ())
});
// @h c04a_typed_cropped_mut_new | prop=C04 | tier=quick | t=300 | enc=TypedCroppedImageMut::new -> check_crop_box | bounds=symbolic: image size and rectangle, all u32^6; no loops
c04a!(c04a_typed_cropped_mut_new, |iw, ih, l, t, w, h| {
    let v = SizeOnlyView { w: iw, h: ih };
    TypedCroppedImageMut::new(v, l, t, w, h).map(|_| ())
});
// @h c04a_cropped_image_new | prop=C04 | tier=quick | t=300 | enc=CroppedImage::new -> check_crop_box | bounds=symbolic: image size and rectangle, all u32^6; no loops
c04a!(c04a_cropped_image_new, |iw, ih, l, t, w, h| {
    let v = SizeOnlyImage { w: iw, h: ih };
    CroppedImage::new(&v, l, t, w, h).map(|_| ())
});
// @h c04a_cropped_image_mut_new | prop=C04 | tier=quick | t=300 | enc=CroppedImageMut::new -> check_crop_box | bounds=symbolic: image size and rectangle, all u32^6; no loops
c04a!(c04a_cropped_image_mut_new, |iw, ih, l, t, w, h| {
    let mut v = SizeOnlyImage { w: iw, h: ih };
    CroppedImageMut::new(&mut v, l, t, w, h).map(|_| ())
});

// ---------------------------------------------------------------------------
// (b) f64 crop box of a resize
// ---------------------------------------------------------------------------

struct F64Verdict {
    must_reject: bool,
    must_accept: bool,
}

fn judge_f64_axis(pos: f64, size: f64, extent: u32) -> F64Verdict {
    let ext = extent as f64;
    let finite = pos.is_finite() && size.is_finite();
    let nonneg = pos >= 0. && size >= 0.;
    // "inside" measured both ways a correct implementation may round it
    let in_a = pos + size <= ext;
    let in_b = size <= ext - pos;
    F64Verdict {
        must_reject: !finite || !nonneg || (!in_a && !in_b),
        must_accept: finite && nonneg && pos < ext && in_a && in_b,
    }
}

fn judge_f64_box(res: Result<(), CropBoxError>, b: CropBox, iw: u32, ih: u32) {
    let x = judge_f64_axis(b.left, b.width, iw);
    let y = judge_f64_axis(b.top, b.height, ih);
    let accepted = res.is_ok();
    assert!(
        !(x.must_reject || y.must_reject) || !accepted,
        "C04b: crop box that is not a finite non-negative region inside the image accepted"
    );
    assert!(
        !(x.must_accept && y.must_accept) || accepted,
        "C04b: crop box inside the image rejected"
    );
    let all_finite =
        b.left.is_finite() && b.top.is_finite() && b.width.is_finite() && b.height.is_finite();
    if let Err(e) = res {
        if all_finite && (b.width < 0. || b.height < 0.) {
            assert!(
                e == CropBoxError::WidthOrHeightLessThanZero,
                "C04b: wrong error kind for negative size"
            );
        } else if all_finite && b.left >= 0. && b.top >= 0. {
            if b.left >= iw as f64 || b.top >= ih as f64 {
                assert!(
                    e == CropBoxError::PositionIsOutOfImageBoundaries,
                    "C04b: wrong error kind for origin outside"
                );
            } else {
                assert!(
                    e == CropBoxError::SizeIsOutOfImageBoundaries,
                    "C04b: wrong error kind for size outside"
                );
            }
        }
    }
    kani::cover!(accepted && b.width > 0. && b.height > 0., "accepted non-empty");
    kani::cover!(!accepted && all_finite, "rejected finite box");
    kani::cover!(b.left < 0. && all_finite, "negative left reachable");
    kani::cover!(b.width.is_nan(), "NaN width reachable");
    kani::cover!(b.left.is_infinite(), "infinite left reachable");
}

fn any_crop_box() -> CropBox {
    CropBox {
        left: kani::any(),
        top: kani::any(),
        width: kani::any(),
        height: kani::any(),
    }
}

/// The validation step `Resizer::resize_typed` applies, for all f64^4 x u32^2.
// @h c04b_validate_crop_box | prop=C04 | tier=quick | t=900 | enc=crop_box::CroppedSrcImageView::crop (via verif_api::validate_crop_box) | bounds=symbolic: crop box all f64^4 incl. NaN/inf/negative, image size all u32^2; no loops
#[kani::proof]
pub fn c04b_validate_crop_box() {
    let iw: u32 = kani::any();
    let ih: u32 = kani::any();
    let b = any_crop_box();
    let v = SizeOnlyView { w: iw, h: ih };
    let res = verif_api::validate_crop_box(&v, b);
    judge_f64_box(res, b, iw, ih);
}

/// Same through the public entry point (`ResizeOptions::crop` -> `resize_typed`).
/// The source has no pixel rows, so after validation nothing is copied.
// @h c04b_resize_typed_crop | prop=C04 | tier=quick | t=1200 | enc=Resizer::resize_typed, ResizeOptions::crop, CroppedSrcImageView::crop, resizer::copy_image, resizer::resample_nearest (source without rows) | bounds=symbolic: crop box all f64^4 with non-zero size, source size all u32^2; destination 1x1 U8; unwind 3
#[kani::proof]
#[kani::unwind(3)]
pub fn c04b_resize_typed_crop() {
    let iw: u32 = kani::any();
    let ih: u32 = kani::any();
    let b = any_crop_box();
    // zero-sized boxes return Ok before validation (documented "do nothing")
    kani::assume(b.width != 0. && b.height != 0.);
    let src = SizeOnlyView { w: iw, h: ih };
    let mut dst_px = [U8::new(0); 1];
    let mut dst = TypedImage::from_pixels_slice(1, 1, &mut dst_px).unwrap();
    let mut resizer = Resizer::verif_with_state(CpuExtensions::None, Vec::new(), Vec::new(), Vec::new());
    let opts = ResizeOptions::new()
        .resize_alg(ResizeAlg::Nearest)
        .crop(b.left, b.top, b.width, b.height);
    let res = resizer.resize_typed(&src, &mut dst, &opts);
    let res = match res {
        Ok(()) => Ok(()),
        Err(ResizeError::SrcCroppingError(e)) => Err(e),
        Err(_) => {
            assert!(false, "C04b: undocumented error from resize_typed");
            return;
        }
    };
    judge_f64_box(res, b, iw, ih);
}

// ---------------------------------------------------------------------------
// (c) buffer size / alignment checks of the image constructors
// ---------------------------------------------------------------------------

const BUF: usize = 40;

fn judge_buffer(
    res: Result<(), ImageBufferError>,
    w: u32,
    h: u32,
    len_bytes: usize,
    px_size: usize,
    aligned: bool,
) {
    let need = w as u128 * h as u128 * px_size as u128;
    let big_enough = len_bytes as u128 >= need;
    let accepted = res.is_ok();
    assert!(!accepted || big_enough, "C04c: buffer smaller than width*height*pixel_size accepted");
    assert!(!accepted || aligned, "C04c: misaligned buffer accepted");
    assert!(!(big_enough && aligned) || accepted, "C04c: sufficient aligned buffer rejected");
    if let Err(e) = res {
        if big_enough {
            assert!(e == ImageBufferError::InvalidBufferAlignment, "C04c: wrong error kind (alignment expected)");
        } else if aligned {
            assert!(e == ImageBufferError::InvalidBufferSize, "C04c: wrong error kind (size expected)");
        }
    }
    kani::cover!(accepted && need > 0, "accepted non-empty image");
    kani::cover!(!accepted && !big_enough, "rejected for size");
    kani::cover!(need > u64::MAX as u128, "opt: w*h*size exceeds u64");
}

#[repr(align(8))]
struct Aligned([u8; BUF + 8]);

/// The address of an empty buffer is irrelevant (slice::align_to treats it as aligned).
fn is_addr_aligned(buf: &[u8], align: usize) -> bool {
    buf.is_empty() || (buf.as_ptr() as usize) % align == 0
}

macro_rules! c04c_dyn {
    ($name:ident, $pt:expr, $align:expr) => {
        #[kani::proof]
        #[kani::unwind(2)]
        pub fn $name() {
            let w: u32 = kani::any();
            let h: u32 = kani::any();
            let pt: PixelType = $pt;
            let mut store = Aligned([0u8; BUF + 8]);
            let off: usize = kani::any();
            let len: usize = kani::any();
            kani::assume(off < 8 && len <= BUF);
            {
                let buf = &store.0[off..off + len];
                let aligned = is_addr_aligned(buf, $align);
                let res = ImageRef::new(w, h, buf, pt).map(|_| ());
                judge_buffer(res, w, h, len, pt.size(), aligned);
            }
            {
                let buf = &mut store.0[off..off + len];
                let aligned = is_addr_aligned(buf, $align);
                let res = Image::from_slice_u8(w, h, buf, pt).map(|_| ());
                judge_buffer(res, w, h, len, pt.size(), aligned);
                kani::cover!(!aligned || $align == 1, "misaligned slice reachable (or alignment 1)");
            }
        }
    };
}

// @h c04c_dyn_u8x3 | prop=C04 | tier=quick | t=600 | enc=ImageRef::new, Image::from_slice_u8, PixelType::is_aligned, PixelType::size | bounds=symbolic: width,height all u32; buffer length 0..=40 bytes; start offset 0..7 in an 8-aligned store; enumerated: pixel type U8x3
c04c_dyn!(c04c_dyn_u8x3, PixelType::U8x3, 1);
// @h c04c_dyn_u16x3 | prop=C04 | tier=quick | t=600 | enc=ImageRef::new, Image::from_slice_u8, PixelType::is_aligned, PixelType::size | bounds=symbolic: width,height all u32; buffer length 0..=40 bytes; start offset 0..7; enumerated: pixel type U16x3
c04c_dyn!(c04c_dyn_u16x3, PixelType::U16x3, 2);
// @h c04c_dyn_f32x4 | prop=C04 | tier=quick | t=600 | enc=ImageRef::new, Image::from_slice_u8, PixelType::is_aligned, PixelType::size | bounds=symbolic: width,height all u32; buffer length 0..=40 bytes; start offset 0..7; enumerated: pixel type F32x4
c04c_dyn!(c04c_dyn_f32x4, PixelType::F32x4, 4);
// @h c04c_dyn_u8 | prop=C04 | tier=thorough | t=600 | enc=ImageRef::new, Image::from_slice_u8 | bounds=as c04c_dyn_u8x3 with pixel type U8
c04c_dyn!(c04c_dyn_u8, PixelType::U8, 1);
// @h c04c_dyn_u16x4 | prop=C04 | tier=thorough | t=600 | enc=ImageRef::new, Image::from_slice_u8 | bounds=as c04c_dyn_u8x3 with pixel type U16x4
c04c_dyn!(c04c_dyn_u16x4, PixelType::U16x4, 2);
// @h c04c_dyn_i32 | prop=C04 | tier=thorough | t=600 | enc=ImageRef::new, Image::from_slice_u8 | bounds=as c04c_dyn_u8x3 with pixel type I32
c04c_dyn!(c04c_dyn_i32, PixelType::I32, 4);
// @h c04c_dyn_f32x3 | prop=C04 | tier=thorough | t=600 | enc=ImageRef::new, Image::from_slice_u8 | bounds=as c04c_dyn_u8x3 with pixel type F32x3
c04c_dyn!(c04c_dyn_f32x3, PixelType::F32x3, 4);

// @h c04c_from_vec_u8 | prop=C04 | tier=quick | t=600 | enc=Image::from_vec_u8 | bounds=symbolic: width,height all u32, vector length 0..=12; enumerated: pixel type U8x2
#[kani::proof]
#[kani::unwind(14)]
pub fn c04c_from_vec_u8() {
    let w: u32 = kani::any();
    let h: u32 = kani::any();
    let len: usize = kani::any();
    kani::assume(len <= 12);
    let v = vec![0u8; len];
    let res = Image::from_vec_u8(w, h, v, PixelType::U8x2).map(|_| ());
    judge_buffer(res, w, h, len, 2, true);
}

macro_rules! c04c_typed {
    ($name:ident, $p:ty) => {
        #[kani::proof]
        #[kani::unwind(2)]
        pub fn $name() {
            let w: u32 = kani::any();
            let h: u32 = kani::any();
            let mut store = Aligned([0u8; BUF + 8]);
            let off: usize = kani::any();
            let len: usize = kani::any();
            kani::assume(off < 8 && len <= BUF);
            let sz = core::mem::size_of::<$p>();
            {
                let buf = &store.0[off..off + len];
                let aligned = is_addr_aligned(buf, core::mem::align_of::<$p>());
                let res = TypedImageRef::<$p>::from_buffer(w, h, buf).map(|_| ());
                // from_buffer aligns first and then counts whole pixels
                judge_buffer(res, w, h, len - len % sz, sz, aligned);
            }
            {
                let buf = &mut store.0[off..off + len];
                let aligned = is_addr_aligned(buf, core::mem::align_of::<$p>());
                let res = TypedImage::<$p>::from_buffer(w, h, buf).map(|_| ());
                judge_buffer(res, w, h, len - len % sz, sz, aligned);
            }
        }
    };
}

// @h c04c_typed_from_buffer_u8x3 | prop=C04 | tier=quick | t=600 | enc=TypedImageRef::from_buffer, TypedImage::from_buffer, images::typed_image::align_buffer_to(_mut) | bounds=symbolic: width,height all u32; buffer 0..=40 bytes, offset 0..7; enumerated: U8x3
c04c_typed!(c04c_typed_from_buffer_u8x3, U8x3);
// @h c04c_typed_from_buffer_u16x2 | prop=C04 | tier=quick | t=600 | enc=TypedImageRef::from_buffer, TypedImage::from_buffer | bounds=symbolic: width,height all u32; buffer 0..=40 bytes, offset 0..7; enumerated: U16x2
c04c_typed!(c04c_typed_from_buffer_u16x2, U16x2);
// @h c04c_typed_from_buffer_f32x4 | prop=C04 | tier=thorough | t=600 | enc=TypedImageRef::from_buffer, TypedImage::from_buffer | bounds=symbolic: width,height all u32; buffer 0..=40 bytes, offset 0..7; enumerated: F32x4
c04c_typed!(c04c_typed_from_buffer_f32x4, F32x4);

macro_rules! c04c_pixels {
    ($name:ident, $p:ty) => {
        #[kani::proof]
        #[kani::unwind(8)]
        pub fn $name() {
            let w: u32 = kani::any();
            let h: u32 = kani::any();
            const N: usize = 6;
            let mut store = [<$p>::default(); N];
            let len: usize = kani::any();
            kani::assume(len <= N);
            let need = w as u128 * h as u128;
            {
                let res = TypedImageRef::<$p>::new(w, h, &store[..len]);
                assert!(res.is_ok() == (len as u128 >= need), "C04c: TypedImageRef::new accepts iff enough pixels");
            }
            {
                let res = TypedImage::<$p>::from_pixels_slice(w, h, &mut store[..len]);
                assert!(res.is_ok() == (len as u128 >= need), "C04c: from_pixels_slice accepts iff enough pixels");
                kani::cover!(res.is_ok() && need > 0, "accepted non-empty");
                kani::cover!(res.is_err(), "rejected");
            }
            {
                let v = store[..len].to_vec();
                let res = TypedImage::<$p>::from_pixels(w, h, v);
                assert!(res.is_ok() == (len as u128 >= need), "C04c: from_pixels accepts iff enough pixels");
            }
        }
    };
}

// @h c04c_typed_pixels_u8 | prop=C04 | tier=quick | t=300 | enc=TypedImageRef::new, TypedImage::from_pixels_slice, TypedImage::from_pixels | bounds=symbolic: width,height all u32, slice length 0..=6 pixels; enumerated: U8
c04c_pixels!(c04c_typed_pixels_u8, U8);
// @h c04c_typed_pixels_u16x3 | prop=C04 | tier=quick | t=300 | enc=TypedImageRef::new, TypedImage::from_pixels_slice, TypedImage::from_pixels | bounds=symbolic: width,height all u32, slice length 0..=6 pixels; enumerated: U16x3
c04c_pixels!(c04c_typed_pixels_u16x3, U16x3);

// ---------------------------------------------------------------------------
// (d) an accepted view exposes rows of exactly its width, from inside the parent
// ---------------------------------------------------------------------------

const PW: u32 = 4;
const PH: u32 = 4;

fn tagged_parent() -> [U8; (PW * PH) as usize] {
    let mut px = [U8::new(0); (PW * PH) as usize];
    let mut i = 0;
    while i < px.len() {
        px[i] = U8::new(i as u8 + 1);
        i += 1;
    }
    px
}

fn check_view_rows(view: &impl ImageView<Pixel = U8>, pw: u32, l: u32, t: u32, w: u32, h: u32) {
    assert!(view.width() == w && view.height() == h, "C04d: view reports requested size");
    let mut rows = 0u32;
    for row in view.iter_rows(0) {
        assert!(row.len() == w as usize, "C04d: row has exactly `width` pixels");
        let mut x = 0;
        while x < row.len() {
            let expect = ((t + rows) * pw + l + x as u32) as u8 + 1;
            assert!(row[x].0 == expect, "C04d: row pixel comes from inside the parent rectangle");
            x += 1;
        }
        rows += 1;
    }
    assert!(rows == h, "C04d: view yields exactly `height` rows");
}

// @h c04d_typed_cropped_rows | prop=C04 | tier=quick | t=900 | enc=TypedCroppedImage::from_ref, TypedCroppedImage::iter_rows, TypedImageRef::iter_rows | bounds=symbolic: parent size 1..=4 x 1..=4, rectangle l,t,w,h each 0..=8; tagged pixels; unwind 18
#[kani::proof]
#[kani::unwind(18)]
pub fn c04d_typed_cropped_rows() {
    // parent size symbolic in 1..=4 x 1..=4 (backed by a 16-pixel tagged buffer)
    let pw: u32 = kani::any();
    let ph: u32 = kani::any();
    kani::assume(pw >= 1 && pw <= PW && ph >= 1 && ph <= PH);
    let px = tagged_parent();
    let parent = TypedImageRef::new(pw, ph, &px[..(pw * ph) as usize]).unwrap();
    let l: u32 = kani::any();
    let t: u32 = kani::any();
    let w: u32 = kani::any();
    let h: u32 = kani::any();
    // keep the sums in range here: overflow behaviour is what c04a decides
    kani::assume(l <= 8 && t <= 8 && w <= 8 && h <= 8);
    if let Ok(view) = TypedCroppedImage::from_ref(&parent, l, t, w, h) {
        check_view_rows(&view, pw, l, t, w, h);
        kani::cover!(w == 2 && h == 2 && l == 1 && t == 2, "interior 2x2 view");
        kani::cover!(l + w == pw && t + h == ph && w > 0 && h > 0, "view flush bottom-right");
    }
}

// @h c04d_nested_cropped_rows | prop=C04 | tier=thorough | t=1800 | enc=TypedCroppedImage::from_ref (nested), TypedCroppedImage::iter_rows | bounds=symbolic: two nested rectangles each coordinate 0..=5 inside a 4x4 parent; unwind 18
#[kani::proof]
#[kani::unwind(18)]
pub fn c04d_nested_cropped_rows() {
    let px = tagged_parent();
    let parent = TypedImageRef::new(PW, PH, &px).unwrap();
    let l1: u32 = kani::any();
    let t1: u32 = kani::any();
    let w1: u32 = kani::any();
    let h1: u32 = kani::any();
    let l2: u32 = kani::any();
    let t2: u32 = kani::any();
    let w2: u32 = kani::any();
    let h2: u32 = kani::any();
    kani::assume(l1 <= 5 && t1 <= 5 && w1 <= 5 && h1 <= 5);
    kani::assume(l2 <= 5 && t2 <= 5 && w2 <= 5 && h2 <= 5);
    if let Ok(outer) = TypedCroppedImage::from_ref(&parent, l1, t1, w1, h1) {
        if let Ok(inner) = TypedCroppedImage::from_ref(&outer, l2, t2, w2, h2) {
            check_view_rows(&inner, PW, l1 + l2, t1 + t2, w2, h2);
            kani::cover!(w2 == 2 && h2 == 1 && l2 == 1 && l1 == 1, "nested interior view");
        }
    }
}
