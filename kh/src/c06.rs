//! C06 Alpha multiply is exactly rounded, alpha divide is faithful and saturating.
//!
//! Every harness drives the public `MulDiv` entry points on a 1-row image.  One pixel, at an
//! enumerated position of the row (first lane, last lane of the vector chunk, remainder; all
//! positions in the thorough tier), has symbolic (colour.., alpha); the other pixels are fixed
//! and checked too.  The operations are per-pixel, so this quantifies over every
//! (colour, alpha) pair in those lane positions.
use crate::kern::{as_pixels, as_pixels_mut, KComp};
use fast_image_resize::images::*;
use fast_image_resize::pixels::*;
use fast_image_resize::*;

/// round(c * a / max), exactly (ties cannot occur for odd max*2... they are rounded half up)
fn mul_spec(c: u64, a: u64, max: u64) -> u64 {
    (2 * c * a + max) / (2 * max)
}

/// Is `r` an acceptable result of c * max / a (one of the two neighbouring integers, saturated
/// at max; a = 0 -> 0)?  Written without division (a 64-bit division by a symbolic alpha is
/// what the SAT back end chokes on):
///   floor(x) <= r  <=>  (r + 1) * a > c * max        r <= ceil(x)  <=>  (r - 1) * a < c * max
fn div_ok(r: u64, c: u64, a: u64, max: u64) -> bool {
    if a == 0 {
        return r == 0;
    }
    let num = c * max;
    let not_above = r == 0 || (r - 1) * a < num;
    let not_below = r == max || (r + 1) * a > num;
    r <= max && not_above && not_below
}

#[derive(Clone, Copy, PartialEq)]
pub enum Op {
    MulInplace,
    Mul,
    DivInplace,
    Div,
}

/// Background pixel value for position i, component j (fixed, varied).
/// With `opaque` the alpha component (last) of every background pixel is max, max-1 or max-2
/// (a mostly opaque image: the situation vectorised "all opaque" shortcuts are written for).
fn bg2(i: usize, j: usize, n: usize, max: u64, opaque: bool) -> u64 {
    if opaque && j == n - 1 {
        return max - (i as u64 % 3);
    }
    bg(i, j, max)
}

fn bg(i: usize, j: usize, max: u64) -> u64 {
    let v = (i as u64 * 7919 + j as u64 * 104729 + 12345) % (max + 1);
    match (i + j) % 5 {
        0 => 0,
        1 => max,
        _ => v,
    }
}

pub fn run_case<P, const K: usize, const N: usize, const M: usize>(cpu: CpuExtensions, op: Op, idx: usize, alpha_lo: u64, alpha_hi: u64, opaque_bg: bool)
where
    P: PixelTrait,
    P::Component: KComp + kani::Arbitrary + From<u8> + TryFrom<u64>,
{
    // M = K * N components
    let max = <P::Component as KComp>::MAX as u64;
    let conv = |v: u64| -> P::Component {
        match P::Component::try_from(v) {
            Ok(x) => x,
            Err(_) => unreachable!(),
        }
    };
    let mut src = [conv(0); M];
    let mut i = 0;
    while i < K {
        let mut j = 0;
        while j < N {
            src[i * N + j] = conv(bg2(i, j, N, max, opaque_bg));
            j += 1;
        }
        i += 1;
    }
    // the position of the symbolic pixel is enumerated by the harness instances: a symbolic
    // position makes every lane's float division symbolic (10 min per harness instead of 30 s)
    let mut j = 0;
    while j < N {
        src[idx * N + j] = kani::any();
        j += 1;
    }
    let a_sym = src[idx * N + N - 1].to_i64() as u64;
    kani::assume(a_sym >= alpha_lo && a_sym <= alpha_hi);

    let mut out = [conv(1); M];
    let md = MulDiv::verif_new(cpu);
    match op {
        Op::MulInplace | Op::DivInplace => {
            out = src;
            let mut img = TypedImage::<P>::from_pixels_slice(K as u32, 1, as_pixels_mut::<P>(&mut out)).unwrap();
            let r = if op == Op::MulInplace {
                md.multiply_alpha_inplace_typed(&mut img)
            } else {
                md.divide_alpha_inplace_typed(&mut img)
            };
            assert!(r.is_ok(), "C06: alpha operation on a pixel type with alpha succeeds");
        }
        Op::Mul | Op::Div => {
            let simg = TypedImageRef::<P>::new(K as u32, 1, as_pixels::<P>(&src)).unwrap();
            let mut dimg = TypedImage::<P>::from_pixels_slice(K as u32, 1, as_pixels_mut::<P>(&mut out)).unwrap();
            let r = if op == Op::Mul {
                md.multiply_alpha_typed(&simg, &mut dimg)
            } else {
                md.divide_alpha_typed(&simg, &mut dimg)
            };
            assert!(r.is_ok(), "C06: alpha operation on a pixel type with alpha succeeds");
        }
    }
    let is_mul = op == Op::Mul || op == Op::MulInplace;
    let mut i = 0;
    while i < K {
        let a = src[i * N + N - 1].to_i64() as u64;
        assert!(out[i * N + N - 1].to_i64() as u64 == a, "C06: the alpha component is never changed");
        let mut j = 0;
        while j < N - 1 {
            let c = src[i * N + j].to_i64() as u64;
            let r = out[i * N + j].to_i64() as u64;
            if is_mul {
                assert!(r == mul_spec(c, a, max), "C06: multiply_alpha gives round(c*a/max) exactly");
            } else if a == 0 {
                assert!(r == 0, "C06: divide_alpha with alpha = 0 gives colour 0");
            } else if c <= a {
                assert!(div_ok(r, c, a, max), "C06: divide_alpha is one of the two neighbours of c*max/a (colour <= alpha)");
            } else if c * max < (a << 31) {
                assert!(div_ok(r, c, a, max), "C06: divide_alpha saturates at max when colour > alpha");
            } else {
                assert!(
                    div_ok(r, c, a, max),
                    "C06: divide_alpha saturates at max when the quotient does not fit 31 bits (16-bit, alpha 1, colour > 32768)"
                );
            }
            j += 1;
        }
        i += 1;
    }
    let c0 = src[idx * N].to_i64() as u64;
    kani::cover!(c0 > a_sym && a_sym > alpha_lo, "colour above alpha reachable");
    kani::cover!(c0 < a_sym && c0 > 0, "colour below alpha reachable");
    kani::cover!(a_sym == alpha_hi, "largest alpha of the slice");
}

macro_rules! c06 {
    ($name:ident, $P:ty, $K:expr, $N:expr, $cpu:ident, $op:ident, $idx:expr, $lo:expr, $hi:expr, $opaque:expr, $unwind:expr) => {
        x86_proof! {
            #[kani::unwind($unwind)]
            pub fn $name() {
                run_case::<$P, $K, $N, { $K * $N }>(CpuExtensions::$cpu, Op::$op, $idx, $lo, $hi, $opaque);
            }
        }
    };
}

// The harness instances are generated (gen/pregen.py -> gen_c06.rs) so that the alpha slices of
// the 16-bit divide follow VERIF_SEED; a few fixed ones are kept here.

// @h c06_reject_no_alpha | prop=C06 | tier=quick | t=600 | flags=stub | enc=MulDiv::{multiply,divide}_alpha(_inplace)_typed for U8, U8x3, U16, U16x3, I32, F32, F32x3 (AlphaMulDiv default impls) | bounds=symbolic: pixel contents of 2x1 images; enumerated: the 7 pixel types without alpha; unwind 8
x86_proof! {
    #[kani::unwind(8)]
    pub fn c06_reject_no_alpha() {
        macro_rules! one {
            ($P:ty, $C:ty) => {{
                let mut a: [$C; 2 * <$P as InnerPixel>::CountOfComponents::COUNT] = kani::any();
                let b = a;
                let old = a;
                let md = MulDiv::verif_new(CpuExtensions::None);
                {
                    let mut img = TypedImage::<$P>::from_pixels_slice(2, 1, as_pixels_mut::<$P>(&mut a)).unwrap();
                    assert!(md.multiply_alpha_inplace_typed(&mut img).is_err(), "C06: pixel type without alpha is rejected");
                    assert!(md.divide_alpha_inplace_typed(&mut img).is_err(), "C06: pixel type without alpha is rejected");
                    let simg = TypedImageRef::<$P>::new(2, 1, as_pixels::<$P>(&b)).unwrap();
                    assert!(md.multiply_alpha_typed(&simg, &mut img).is_err(), "C06: pixel type without alpha is rejected");
                    assert!(md.divide_alpha_typed(&simg, &mut img).is_err(), "C06: pixel type without alpha is rejected");
                }
                let mut k = 0;
                while k < a.len() {
                    assert!(a[k] == old[k] || (a[k] != a[k] && old[k] != old[k]), "C06: rejected operation leaves the image untouched");
                    k += 1;
                }
            }};
        }
        one!(U8, u8);
        one!(U8x3, u8);
        one!(U16, u16);
        one!(U16x3, u16);
        one!(I32, i32);
        one!(F32, f32);
        one!(F32x3, f32);
    }
}

pub trait CountConst {
    const COUNT: usize;
}
impl<const N: usize> CountConst for Count<N> {
    const COUNT: usize = N;
}
