//! C08 (a) band-count arithmetic of the rayon feature, for all u32 x u32 image sizes.
use fast_image_resize::*;

// @h c08a_max_parts | prop=C08 | tier=quick | t=900 | enc=threading::calculate_max_h_parts_number, threading::calculate_max_v_parts_number (via verif_api::max_parts_number) | bounds=symbolic: width, height all u32^2; no loops
#[kani::proof]
pub fn c08a_max_parts() {
    let w: u32 = kani::any();
    let h: u32 = kani::any();
    let (hp, vp) = verif_api::max_parts_number(w, h);
    // 0 or 1 both mean "do not split" to the callers; what they rely on is parts <= extent
    // (split_by_height/width return None otherwise) and, above all, that this arithmetic
    // never panics.
    assert!(hp <= h.max(1), "C08: number of row bands does not exceed the height");
    assert!(vp <= w.max(1), "C08: number of column bands does not exceed the width");
    kani::cover!(h >= 65536 && w >= 65536, "both dimensions beyond 65535");
    kani::cover!(hp > 1 && vp > 1, "image that is actually split");
}
