//! C14 Splitting a view yields an exact, ordered, non-overlapping tiling.
//!
//! (start, size, parts) are symbolic (each 0..=EXT+2, so invalid triples are included);
//! container kind, view size and placement inside the parent are enumerated by the macro
//! instances below.  Pixels are identity tags, so "exposes exactly the pixels of that band"
//! is checked on the data, not on reported sizes.
use fast_image_resize::images::*;
use fast_image_resize::pixels::*;
use fast_image_resize::*;
use std::num::NonZeroU32;

pub const PW: usize = 4;
pub const PH: usize = 5;

pub fn tag(px: usize, py: usize) -> u8 {
    (py * PW + px) as u8 + 1
}

pub fn tagged_parent() -> [U8; PW * PH] {
    let mut px = [U8::new(0); PW * PH];
    let mut y = 0;
    while y < PH {
        let mut x = 0;
        while x < PW {
            px[y * PW + x] = U8::new(tag(x, y));
            x += 1;
        }
        y += 1;
    }
    px
}

/// (start, size) symbolic incl. invalid values; the number of parts is enumerated by the
/// harness instances (a symbolic number of parts -> a vector of symbolic length of views ->
/// the SAT back end runs out of memory, probe P11).
fn any_triple(ext: u32, parts: u32) -> (u32, u32, u32) {
    let start: u32 = kani::any();
    let size: u32 = kani::any();
    kani::assume(start <= ext + 1 && size >= 1 && size <= ext + 1);
    (start, size, parts)
}

/// `view` is a `vw x vh` view whose pixel (x, y) is parent pixel (l + x, t + y).
/// All loops have concrete trip counts (parts, vh + 1, vw) so that CBMC does not have to
/// unwind them against lengths it reads back from the heap.
pub fn check_split_by_height<V: ImageView<Pixel = U8>>(view: &V, l: usize, t: usize, vw: u32, vh: u32, nparts: u32) {
    let (start, size, parts) = any_triple(vh, nparts);
    let valid = parts <= size && (start as u64 + size as u64) <= vh as u64;
    let res = view.split_by_height(start, NonZeroU32::new(size).unwrap(), NonZeroU32::new(parts).unwrap());
    assert!(res.is_some() == valid, "C14: Some iff 1 <= parts <= size and the band lies inside the view");
    if let Some(v) = res {
        assert!(v.len() == parts as usize, "C14: exactly the requested number of parts");
        let step = size / parts;
        let mut top = start;
        let mut k = 0usize;
        while k < nparts as usize {
            let part = &v[k];
            let h = part.height();
            assert!(h == step || h == step + 1, "C14: part sizes differ by at most one");
            assert!(part.width() == vw, "C14: parts keep the full width");
            let mut it = part.iter_rows(0);
            let mut rows = 0u32;
            while rows <= vh {
                match it.next() {
                    None => break,
                    Some(row) => {
                        assert!(row.len() == vw as usize, "C14: part row has the view's width");
                        let mut x = 0;
                        while x < vw as usize {
                            assert!(
                                row[x].0 == tag(l + x, t + (top + rows) as usize),
                                "C14: part exposes exactly the pixels of its band, in order"
                            );
                            x += 1;
                        }
                    }
                }
                rows += 1;
            }
            assert!(rows == h, "C14: part yields exactly `height` rows");
            top += h;
            k += 1;
        }
        assert!(top == start + size, "C14: parts cover the requested band exactly once");
        kani::cover!(size % parts != 0 || parts == 1, "opt: uneven split");
    }
    kani::cover!(!valid, "invalid pair rejected");
    kani::cover!(valid, "valid pair accepted");
}

pub fn check_split_by_width<V: ImageView<Pixel = U8>>(view: &V, l: usize, t: usize, vw: u32, vh: u32, nparts: u32) {
    let (start, size, parts) = any_triple(vw, nparts);
    let valid = parts <= size && (start as u64 + size as u64) <= vw as u64;
    let res = view.split_by_width(start, NonZeroU32::new(size).unwrap(), NonZeroU32::new(parts).unwrap());
    assert!(res.is_some() == valid, "C14: Some iff 1 <= parts <= size and the band lies inside the view");
    if let Some(v) = res {
        assert!(v.len() == parts as usize, "C14: exactly the requested number of parts");
        let step = size / parts;
        let mut left = start;
        let mut k = 0usize;
        while k < nparts as usize {
            let part = &v[k];
            let w = part.width();
            assert!(w == step || w == step + 1, "C14: part sizes differ by at most one");
            assert!(part.height() == vh, "C14: parts keep the full height");
            let mut it = part.iter_rows(0);
            let mut rows = 0u32;
            while rows <= vh {
                match it.next() {
                    None => break,
                    Some(row) => {
                        assert!(row.len() == w as usize, "C14: part row has the part's width");
                        let mut x = 0;
                        while x < vw as usize {
                            if x < row.len() {
                                assert!(
                                    row[x].0 == tag(l + left as usize + x, t + rows as usize),
                                    "C14: part exposes exactly the pixels of its band, in order"
                                );
                            }
                            x += 1;
                        }
                    }
                }
                rows += 1;
            }
            assert!(rows == vh, "C14: part yields exactly `height` rows");
            left += w;
            k += 1;
        }
        assert!(left == start + size, "C14: parts cover the requested band exactly once");
        kani::cover!(size % parts != 0 || parts == 1, "opt: uneven split");
    }
    kani::cover!(!valid, "invalid pair rejected");
    kani::cover!(valid, "valid pair accepted");
}

fn fill_part<V: ImageViewMut<Pixel = U8>>(part: &mut V, value: u8, max_rows: u32, max_cols: u32) {
    let mut it = part.iter_rows_mut(0);
    let mut rows = 0u32;
    while rows <= max_rows {
        match it.next() {
            None => break,
            Some(row) => {
                let mut x = 0;
                while x < max_cols as usize {
                    if x < row.len() {
                        row[x] = U8::new(value);
                    }
                    x += 1;
                }
            }
        }
        rows += 1;
    }
}

/// Mutable split: write `100 + k` through part k, then look at the parent buffer.
pub fn check_split_by_height_mut<V: ImageViewMut<Pixel = U8>>(view: &mut V, vw: u32, vh: u32, nparts: u32) -> Option<(u32, u32, u32)> {
    let (start, size, parts) = any_triple(vh, nparts);
    let valid = parts <= size && (start as u64 + size as u64) <= vh as u64;
    let res = view.split_by_height_mut(start, NonZeroU32::new(size).unwrap(), NonZeroU32::new(parts).unwrap());
    assert!(res.is_some() == valid, "C14: Some iff 1 <= parts <= size and the band lies inside the view");
    if let Some(mut v) = res {
        assert!(v.len() == parts as usize, "C14: exactly the requested number of parts");
        let mut k = 0usize;
        while k < nparts as usize {
            assert!(v[k].width() == vw, "C14: parts keep the full width");
            fill_part(&mut v[k], 100 + k as u8, vh, vw);
            k += 1;
        }
        return Some((start, size, parts));
    }
    None
}

pub fn check_split_by_width_mut<V: ImageViewMut<Pixel = U8>>(view: &mut V, vw: u32, vh: u32, nparts: u32) -> Option<(u32, u32, u32)> {
    let (start, size, parts) = any_triple(vw, nparts);
    let valid = parts <= size && (start as u64 + size as u64) <= vw as u64;
    let res = view.split_by_width_mut(start, NonZeroU32::new(size).unwrap(), NonZeroU32::new(parts).unwrap());
    assert!(res.is_some() == valid, "C14: Some iff 1 <= parts <= size and the band lies inside the view");
    if let Some(mut v) = res {
        assert!(v.len() == parts as usize, "C14: exactly the requested number of parts");
        let mut k = 0usize;
        while k < nparts as usize {
            assert!(v[k].height() == vh, "C14: parts keep the full height");
            fill_part(&mut v[k], 100 + k as u8, vh, vw);
            k += 1;
        }
        return Some((start, size, parts));
    }
    None
}

/// index of the part that owns offset `o` (0-based inside the band) for a (size, parts) split
fn owner(o: u32, size: u32, parts: u32) -> u8 {
    let step = size / parts;
    let rem = size % parts;
    // the first `rem` parts have step + 1 items
    let big = rem * (step + 1);
    if o < big {
        (o / (step + 1)) as u8
    } else {
        (rem + (o - big) / step) as u8
    }
}

/// After a mutable split of the view at (l, t, vw, vh) inside the tagged parent.
pub fn check_parent_after_mut(buf: &[U8], l: usize, t: usize, vw: usize, vh: usize, r: Option<(u32, u32, u32)>, by_height: bool) {
    let mut y = 0;
    while y < PH {
        let mut x = 0;
        while x < PW {
            let got = buf[y * PW + x].0;
            let in_view = x >= l && x < l + vw && y >= t && y < t + vh;
            let mut expect = tag(x, y);
            if let Some((start, size, parts)) = r {
                if in_view {
                    let o = if by_height { (y - t) as u32 } else { (x - l) as u32 };
                    if o >= start && o < start + size {
                        expect = 100 + owner(o - start, size, parts);
                    }
                }
            }
            assert!(
                got == expect,
                "C14: every pixel of the band was written through exactly its own part, everything else is untouched"
            );
            x += 1;
        }
        y += 1;
    }
}

macro_rules! c14_case {
    ($name:ident, ro, $fn:ident, $parts:expr, $l:expr, $t:expr, $vw:expr, $vh:expr, |$px:ident| $mk:block) => {
        #[kani::proof]
        #[kani::unwind(7)]
        pub fn $name() {
            let mut $px = tagged_parent();
            let view = $mk;
            $fn(&view, $l, $t, $vw, $vh, $parts);
        }
    };
}

// @h c14_h_typed_ref_p1 | prop=C14 | tier=quick | t=1500 | mem=12 | flags=--no-assertion-reach-checks --no-memory-safety-checks --no-overflow-checks | enc=TypedImageRef::split_by_height (slice specialisation), TypedImageRef::iter_rows | bounds=symbolic: start 0..=8 and size 1..=8 of the band (invalid ones included); enumerated: parts=1, TypedImageRef 4x5; tagged pixels; unwind 7
c14_case!(c14_h_typed_ref_p1, ro, check_split_by_height, 1, 0, 0, 4, 5, |px| { TypedImageRef::new(PW as u32, PH as u32, &px).unwrap() });
// @h c14_h_typed_ref_p2 | prop=C14 | tier=quick | t=1500 | mem=12 | flags=--no-assertion-reach-checks --no-memory-safety-checks --no-overflow-checks | enc=TypedImageRef::split_by_height (slice specialisation), TypedImageRef::iter_rows | bounds=symbolic: start 0..=8 and size 1..=8 of the band (invalid ones included); enumerated: parts=2, TypedImageRef 4x5; tagged pixels; unwind 7
c14_case!(c14_h_typed_ref_p2, ro, check_split_by_height, 2, 0, 0, 4, 5, |px| { TypedImageRef::new(PW as u32, PH as u32, &px).unwrap() });
// @h c14_h_typed_ref_p3 | prop=C14 | tier=thorough | t=1500 | mem=12 | flags=--no-assertion-reach-checks --no-memory-safety-checks --no-overflow-checks | enc=TypedImageRef::split_by_height (slice specialisation), TypedImageRef::iter_rows | bounds=symbolic: start 0..=8 and size 1..=8 of the band (invalid ones included); enumerated: parts=3, TypedImageRef 4x5; tagged pixels; unwind 7
c14_case!(c14_h_typed_ref_p3, ro, check_split_by_height, 3, 0, 0, 4, 5, |px| { TypedImageRef::new(PW as u32, PH as u32, &px).unwrap() });
// @h c14_h_typed_ref_p4 | prop=C14 | tier=quick | t=1500 | mem=12 | flags=--no-assertion-reach-checks --no-memory-safety-checks --no-overflow-checks | enc=TypedImageRef::split_by_height (slice specialisation), TypedImageRef::iter_rows | bounds=symbolic: start 0..=8 and size 1..=8 of the band (invalid ones included); enumerated: parts=4, TypedImageRef 4x5; tagged pixels; unwind 7
c14_case!(c14_h_typed_ref_p4, ro, check_split_by_height, 4, 0, 0, 4, 5, |px| { TypedImageRef::new(PW as u32, PH as u32, &px).unwrap() });
// @h c14_h_typed_ref_p5 | prop=C14 | tier=thorough | t=1500 | mem=12 | flags=--no-assertion-reach-checks --no-memory-safety-checks --no-overflow-checks | enc=TypedImageRef::split_by_height (slice specialisation), TypedImageRef::iter_rows | bounds=symbolic: start 0..=8 and size 1..=8 of the band (invalid ones included); enumerated: parts=5, TypedImageRef 4x5; tagged pixels; unwind 7
c14_case!(c14_h_typed_ref_p5, ro, check_split_by_height, 5, 0, 0, 4, 5, |px| { TypedImageRef::new(PW as u32, PH as u32, &px).unwrap() });
// @h c14_h_typed_ref_p7 | prop=C14 | tier=thorough | t=1500 | mem=12 | flags=--no-assertion-reach-checks --no-memory-safety-checks --no-overflow-checks | enc=TypedImageRef::split_by_height (slice specialisation), TypedImageRef::iter_rows | bounds=symbolic: start 0..=8 and size 1..=8 of the band (invalid ones included); enumerated: parts=7, TypedImageRef 4x5; tagged pixels; unwind 7
c14_case!(c14_h_typed_ref_p7, ro, check_split_by_height, 7, 0, 0, 4, 5, |px| { TypedImageRef::new(PW as u32, PH as u32, &px).unwrap() });
// @h c14_w_typed_ref_p2 | prop=C14 | tier=quick | t=1500 | mem=12 | flags=--no-assertion-reach-checks --no-memory-safety-checks --no-overflow-checks | enc=ImageView::split_by_width default (TypedCroppedImage::from_ref), TypedCroppedImage::iter_rows | bounds=symbolic: start 0..=7 and size 1..=7 of the band (invalid ones included); enumerated: parts=2, TypedImageRef 4x5; tagged pixels; unwind 7
c14_case!(c14_w_typed_ref_p2, ro, check_split_by_width, 2, 0, 0, 4, 5, |px| { TypedImageRef::new(PW as u32, PH as u32, &px).unwrap() });
// @h c14_w_typed_ref_p3 | prop=C14 | tier=quick | t=1500 | mem=12 | flags=--no-assertion-reach-checks --no-memory-safety-checks --no-overflow-checks | enc=ImageView::split_by_width default (TypedCroppedImage::from_ref), TypedCroppedImage::iter_rows | bounds=symbolic: start 0..=7 and size 1..=7 of the band (invalid ones included); enumerated: parts=3, TypedImageRef 4x5; tagged pixels; unwind 7
c14_case!(c14_w_typed_ref_p3, ro, check_split_by_width, 3, 0, 0, 4, 5, |px| { TypedImageRef::new(PW as u32, PH as u32, &px).unwrap() });
// @h c14_w_typed_ref_p1 | prop=C14 | tier=thorough | t=1500 | mem=12 | flags=--no-assertion-reach-checks --no-memory-safety-checks --no-overflow-checks | enc=ImageView::split_by_width default (TypedCroppedImage::from_ref), TypedCroppedImage::iter_rows | bounds=symbolic: start 0..=7 and size 1..=7 of the band (invalid ones included); enumerated: parts=1, TypedImageRef 4x5; tagged pixels; unwind 7
c14_case!(c14_w_typed_ref_p1, ro, check_split_by_width, 1, 0, 0, 4, 5, |px| { TypedImageRef::new(PW as u32, PH as u32, &px).unwrap() });
// @h c14_w_typed_ref_p4 | prop=C14 | tier=thorough | t=1500 | mem=12 | flags=--no-assertion-reach-checks --no-memory-safety-checks --no-overflow-checks | enc=ImageView::split_by_width default (TypedCroppedImage::from_ref), TypedCroppedImage::iter_rows | bounds=symbolic: start 0..=7 and size 1..=7 of the band (invalid ones included); enumerated: parts=4, TypedImageRef 4x5; tagged pixels; unwind 7
c14_case!(c14_w_typed_ref_p4, ro, check_split_by_width, 4, 0, 0, 4, 5, |px| { TypedImageRef::new(PW as u32, PH as u32, &px).unwrap() });
// @h c14_w_typed_ref_p6 | prop=C14 | tier=thorough | t=1500 | mem=12 | flags=--no-assertion-reach-checks --no-memory-safety-checks --no-overflow-checks | enc=ImageView::split_by_width default (TypedCroppedImage::from_ref), TypedCroppedImage::iter_rows | bounds=symbolic: start 0..=7 and size 1..=7 of the band (invalid ones included); enumerated: parts=6, TypedImageRef 4x5; tagged pixels; unwind 7
c14_case!(c14_w_typed_ref_p6, ro, check_split_by_width, 6, 0, 0, 4, 5, |px| { TypedImageRef::new(PW as u32, PH as u32, &px).unwrap() });
// @h c14_h_typed_image_p2 | prop=C14 | tier=thorough | t=1500 | mem=12 | flags=--no-assertion-reach-checks --no-memory-safety-checks --no-overflow-checks | enc=TypedImage::split_by_height | bounds=symbolic: start 0..=8 and size 1..=8 of the band (invalid ones included); enumerated: parts=2, TypedImage 4x5; tagged pixels; unwind 7
c14_case!(c14_h_typed_image_p2, ro, check_split_by_height, 2, 0, 0, 4, 5, |px| { TypedImage::from_pixels_slice(PW as u32, PH as u32, &mut px).unwrap() });
// @h c14_h_typed_image_p3 | prop=C14 | tier=thorough | t=1500 | mem=12 | flags=--no-assertion-reach-checks --no-memory-safety-checks --no-overflow-checks | enc=TypedImage::split_by_height | bounds=symbolic: start 0..=8 and size 1..=8 of the band (invalid ones included); enumerated: parts=3, TypedImage 4x5; tagged pixels; unwind 7
c14_case!(c14_h_typed_image_p3, ro, check_split_by_height, 3, 0, 0, 4, 5, |px| { TypedImage::from_pixels_slice(PW as u32, PH as u32, &mut px).unwrap() });

macro_rules! c14_cropped {
    ($name:ident, $fn:ident, $parts:expr, ($l:expr, $t:expr, $vw:expr, $vh:expr)) => {
        #[kani::proof]
        #[kani::unwind(7)]
        pub fn $name() {
            let px = tagged_parent();
            let parent = TypedImageRef::new(PW as u32, PH as u32, &px).unwrap();
            let view = TypedCroppedImage::from_ref(&parent, $l, $t, $vw, $vh).unwrap();
            $fn(&view, $l as usize, $t as usize, $vw, $vh, $parts);
        }
    };
}
macro_rules! c14_nested {
    ($name:ident, $fn:ident, $parts:expr) => {
        #[kani::proof]
        #[kani::unwind(7)]
        pub fn $name() {
            let px = tagged_parent();
            let parent = TypedImageRef::new(PW as u32, PH as u32, &px).unwrap();
            let outer = TypedCroppedImage::from_ref(&parent, 1, 1, 3, 4).unwrap();
            let view = TypedCroppedImage::from_ref(&outer, 0, 1, 2, 2).unwrap();
            $fn(&view, 1, 2, 2, 2, $parts);
        }
    };
}
macro_rules! c14_mut {
    ($name:ident, $fn:ident, $by_height:expr, $parts:expr, whole) => {
        #[kani::proof]
        #[kani::unwind(7)]
        pub fn $name() {
            let mut px = tagged_parent();
            let r = {
                let mut view = TypedImage::from_pixels_slice(PW as u32, PH as u32, &mut px).unwrap();
                $fn(&mut view, PW as u32, PH as u32, $parts)
            };
            check_parent_after_mut(&px, 0, 0, PW, PH, r, $by_height);
            kani::cover!(r.is_some(), "valid mutable split");
        }
    };
    ($name:ident, $fn:ident, $by_height:expr, $parts:expr, ($l:expr, $t:expr, $vw:expr, $vh:expr)) => {
        #[kani::proof]
        #[kani::unwind(7)]
        pub fn $name() {
            let mut px = tagged_parent();
            let r = {
                let mut parent = TypedImage::from_pixels_slice(PW as u32, PH as u32, &mut px).unwrap();
                let mut view = TypedCroppedImageMut::from_ref(&mut parent, $l, $t, $vw, $vh).unwrap();
                $fn(&mut view, $vw, $vh, $parts)
            };
            check_parent_after_mut(&px, $l, $t, $vw, $vh, r, $by_height);
            kani::cover!(r.is_some(), "valid mutable split");
        }
    };
}

// @h c14_h_cropped_interior_p1 | prop=C14 | tier=quick | t=2400 | mem=18 | flags=--no-assertion-reach-checks --no-memory-safety-checks --no-overflow-checks | enc=TypedCroppedImage::split_by_height (offset composition) -> TypedImageRef::split_by_height | bounds=symbolic: start 0..=6, size 1..=6; enumerated: parts=1, TypedCroppedImage 2x3 at (1,2) of a 4x5 TypedImageRef; unwind 7
c14_cropped!(c14_h_cropped_interior_p1, check_split_by_height, 1, (1, 2, 2, 3));
// @h c14_w_cropped_interior_p1 | prop=C14 | tier=quick | t=2400 | mem=18 | flags=--no-assertion-reach-checks --no-memory-safety-checks --no-overflow-checks | enc=TypedCroppedImage::split_by_width (offset composition) -> ImageView::split_by_width default | bounds=symbolic: start 0..=5, size 1..=5; enumerated: parts=1, TypedCroppedImage 2x3 at (1,2) of a 4x5 TypedImageRef; unwind 7
c14_cropped!(c14_w_cropped_interior_p1, check_split_by_width, 1, (1, 2, 2, 3));
// @h c14_h_cropped_interior_p2 | prop=C14 | tier=quick | t=2400 | mem=18 | flags=--no-assertion-reach-checks --no-memory-safety-checks --no-overflow-checks | enc=TypedCroppedImage::split_by_height (offset composition) -> TypedImageRef::split_by_height | bounds=symbolic: start 0..=6, size 1..=6; enumerated: parts=2, TypedCroppedImage 2x3 at (1,2) of a 4x5 TypedImageRef; unwind 7
c14_cropped!(c14_h_cropped_interior_p2, check_split_by_height, 2, (1, 2, 2, 3));
// @h c14_w_cropped_interior_p2 | prop=C14 | tier=quick | t=2400 | mem=18 | flags=--no-assertion-reach-checks --no-memory-safety-checks --no-overflow-checks | enc=TypedCroppedImage::split_by_width (offset composition) -> ImageView::split_by_width default | bounds=symbolic: start 0..=5, size 1..=5; enumerated: parts=2, TypedCroppedImage 2x3 at (1,2) of a 4x5 TypedImageRef; unwind 7
c14_cropped!(c14_w_cropped_interior_p2, check_split_by_width, 2, (1, 2, 2, 3));
// @h c14_h_cropped_interior_p3 | prop=C14 | tier=thorough | t=2400 | mem=18 | flags=--no-assertion-reach-checks --no-memory-safety-checks --no-overflow-checks | enc=TypedCroppedImage::split_by_height (offset composition) -> TypedImageRef::split_by_height | bounds=symbolic: start 0..=6, size 1..=6; enumerated: parts=3, TypedCroppedImage 2x3 at (1,2) of a 4x5 TypedImageRef; unwind 7
c14_cropped!(c14_h_cropped_interior_p3, check_split_by_height, 3, (1, 2, 2, 3));
// @h c14_w_cropped_interior_p3 | prop=C14 | tier=thorough | t=2400 | mem=18 | flags=--no-assertion-reach-checks --no-memory-safety-checks --no-overflow-checks | enc=TypedCroppedImage::split_by_width (offset composition) -> ImageView::split_by_width default | bounds=symbolic: start 0..=5, size 1..=5; enumerated: parts=3, TypedCroppedImage 2x3 at (1,2) of a 4x5 TypedImageRef; unwind 7
c14_cropped!(c14_w_cropped_interior_p3, check_split_by_width, 3, (1, 2, 2, 3));
// @h c14_h_cropped_interior_p4 | prop=C14 | tier=thorough | t=2400 | mem=18 | flags=--no-assertion-reach-checks --no-memory-safety-checks --no-overflow-checks | enc=TypedCroppedImage::split_by_height (offset composition) -> TypedImageRef::split_by_height | bounds=symbolic: start 0..=6, size 1..=6; enumerated: parts=4, TypedCroppedImage 2x3 at (1,2) of a 4x5 TypedImageRef; unwind 7
c14_cropped!(c14_h_cropped_interior_p4, check_split_by_height, 4, (1, 2, 2, 3));
// @h c14_w_cropped_interior_p4 | prop=C14 | tier=thorough | t=2400 | mem=18 | flags=--no-assertion-reach-checks --no-memory-safety-checks --no-overflow-checks | enc=TypedCroppedImage::split_by_width (offset composition) -> ImageView::split_by_width default | bounds=symbolic: start 0..=5, size 1..=5; enumerated: parts=4, TypedCroppedImage 2x3 at (1,2) of a 4x5 TypedImageRef; unwind 7
c14_cropped!(c14_w_cropped_interior_p4, check_split_by_width, 4, (1, 2, 2, 3));
// @h c14_h_cropped_flush_p1 | prop=C14 | tier=thorough | t=2400 | mem=18 | flags=--no-assertion-reach-checks --no-memory-safety-checks --no-overflow-checks | enc=TypedCroppedImage::split_by_height | bounds=symbolic: start, size; enumerated: parts=1, TypedCroppedImage 2x2 flush bottom-right (2,3) of a 4x5 parent; unwind 7
c14_cropped!(c14_h_cropped_flush_p1, check_split_by_height, 1, (2, 3, 2, 2));
// @h c14_h_nested_p1 | prop=C14 | tier=thorough | t=2400 | mem=18 | flags=--no-assertion-reach-checks --no-memory-safety-checks --no-overflow-checks | enc=TypedCroppedImage<TypedCroppedImage<..>>::split_by_height | bounds=symbolic: start, size; enumerated: parts=1, 2x2 view at (0,1) of a 3x4 view at (1,1) of the 4x5 parent; unwind 7
c14_nested!(c14_h_nested_p1, check_split_by_height, 1);
// @h c14_h_cropped_flush_p2 | prop=C14 | tier=thorough | t=2400 | mem=18 | flags=--no-assertion-reach-checks --no-memory-safety-checks --no-overflow-checks | enc=TypedCroppedImage::split_by_height | bounds=symbolic: start, size; enumerated: parts=2, TypedCroppedImage 2x2 flush bottom-right (2,3) of a 4x5 parent; unwind 7
c14_cropped!(c14_h_cropped_flush_p2, check_split_by_height, 2, (2, 3, 2, 2));
// @h c14_h_nested_p2 | prop=C14 | tier=thorough | t=2400 | mem=18 | flags=--no-assertion-reach-checks --no-memory-safety-checks --no-overflow-checks | enc=TypedCroppedImage<TypedCroppedImage<..>>::split_by_height | bounds=symbolic: start, size; enumerated: parts=2, 2x2 view at (0,1) of a 3x4 view at (1,1) of the 4x5 parent; unwind 7
c14_nested!(c14_h_nested_p2, check_split_by_height, 2);
// @h c14_h_cropped_flush_p3 | prop=C14 | tier=thorough | t=2400 | mem=18 | flags=--no-assertion-reach-checks --no-memory-safety-checks --no-overflow-checks | enc=TypedCroppedImage::split_by_height | bounds=symbolic: start, size; enumerated: parts=3, TypedCroppedImage 2x2 flush bottom-right (2,3) of a 4x5 parent; unwind 7
c14_cropped!(c14_h_cropped_flush_p3, check_split_by_height, 3, (2, 3, 2, 2));
// @h c14_h_nested_p3 | prop=C14 | tier=thorough | t=2400 | mem=18 | flags=--no-assertion-reach-checks --no-memory-safety-checks --no-overflow-checks | enc=TypedCroppedImage<TypedCroppedImage<..>>::split_by_height | bounds=symbolic: start, size; enumerated: parts=3, 2x2 view at (0,1) of a 3x4 view at (1,1) of the 4x5 parent; unwind 7
c14_nested!(c14_h_nested_p3, check_split_by_height, 3);
// @h c14_hmut_typed_image_p2 | prop=C14 | tier=quick | t=1800 | mem=12 | flags=--no-assertion-reach-checks --no-memory-safety-checks --no-overflow-checks | enc=TypedImage::split_by_height_mut (split_at_mut specialisation), TypedImage::iter_rows_mut | bounds=symbolic: start 0..=8, size 1..=8; enumerated: parts=2, TypedImage 4x5; write-through check on the parent buffer; unwind 7
c14_mut!(c14_hmut_typed_image_p2, check_split_by_height_mut, true, 2, whole);
// @h c14_wmut_typed_image_p2 | prop=C14 | tier=quick | t=1800 | mem=12 | flags=--no-assertion-reach-checks --no-memory-safety-checks --no-overflow-checks | enc=ImageViewMut::split_by_width_mut default (UnsafeImageMut + TypedCroppedImageMut) | bounds=symbolic: start 0..=7, size 1..=7; enumerated: parts=2, TypedImage 4x5; write-through check on the parent buffer; unwind 7
c14_mut!(c14_wmut_typed_image_p2, check_split_by_width_mut, false, 2, whole);
// @h c14_hmut_typed_image_p3 | prop=C14 | tier=quick | t=1800 | mem=12 | flags=--no-assertion-reach-checks --no-memory-safety-checks --no-overflow-checks | enc=TypedImage::split_by_height_mut (split_at_mut specialisation), TypedImage::iter_rows_mut | bounds=symbolic: start 0..=8, size 1..=8; enumerated: parts=3, TypedImage 4x5; write-through check on the parent buffer; unwind 7
c14_mut!(c14_hmut_typed_image_p3, check_split_by_height_mut, true, 3, whole);
// @h c14_wmut_typed_image_p3 | prop=C14 | tier=quick | t=1800 | mem=12 | flags=--no-assertion-reach-checks --no-memory-safety-checks --no-overflow-checks | enc=ImageViewMut::split_by_width_mut default (UnsafeImageMut + TypedCroppedImageMut) | bounds=symbolic: start 0..=7, size 1..=7; enumerated: parts=3, TypedImage 4x5; write-through check on the parent buffer; unwind 7
c14_mut!(c14_wmut_typed_image_p3, check_split_by_width_mut, false, 3, whole);
// @h c14_hmut_typed_image_p1 | prop=C14 | tier=thorough | t=1800 | mem=12 | flags=--no-assertion-reach-checks --no-memory-safety-checks --no-overflow-checks | enc=TypedImage::split_by_height_mut (split_at_mut specialisation), TypedImage::iter_rows_mut | bounds=symbolic: start 0..=8, size 1..=8; enumerated: parts=1, TypedImage 4x5; write-through check on the parent buffer; unwind 7
c14_mut!(c14_hmut_typed_image_p1, check_split_by_height_mut, true, 1, whole);
// @h c14_wmut_typed_image_p1 | prop=C14 | tier=thorough | t=1800 | mem=12 | flags=--no-assertion-reach-checks --no-memory-safety-checks --no-overflow-checks | enc=ImageViewMut::split_by_width_mut default (UnsafeImageMut + TypedCroppedImageMut) | bounds=symbolic: start 0..=7, size 1..=7; enumerated: parts=1, TypedImage 4x5; write-through check on the parent buffer; unwind 7
c14_mut!(c14_wmut_typed_image_p1, check_split_by_width_mut, false, 1, whole);
// @h c14_hmut_typed_image_p4 | prop=C14 | tier=thorough | t=1800 | mem=12 | flags=--no-assertion-reach-checks --no-memory-safety-checks --no-overflow-checks | enc=TypedImage::split_by_height_mut (split_at_mut specialisation), TypedImage::iter_rows_mut | bounds=symbolic: start 0..=8, size 1..=8; enumerated: parts=4, TypedImage 4x5; write-through check on the parent buffer; unwind 7
c14_mut!(c14_hmut_typed_image_p4, check_split_by_height_mut, true, 4, whole);
// @h c14_wmut_typed_image_p4 | prop=C14 | tier=thorough | t=1800 | mem=12 | flags=--no-assertion-reach-checks --no-memory-safety-checks --no-overflow-checks | enc=ImageViewMut::split_by_width_mut default (UnsafeImageMut + TypedCroppedImageMut) | bounds=symbolic: start 0..=7, size 1..=7; enumerated: parts=4, TypedImage 4x5; write-through check on the parent buffer; unwind 7
c14_mut!(c14_wmut_typed_image_p4, check_split_by_width_mut, false, 4, whole);
// @h c14_hmut_typed_image_p6 | prop=C14 | tier=thorough | t=1800 | mem=12 | flags=--no-assertion-reach-checks --no-memory-safety-checks --no-overflow-checks | enc=TypedImage::split_by_height_mut (split_at_mut specialisation), TypedImage::iter_rows_mut | bounds=symbolic: start 0..=8, size 1..=8; enumerated: parts=6, TypedImage 4x5; write-through check on the parent buffer; unwind 7
c14_mut!(c14_hmut_typed_image_p6, check_split_by_height_mut, true, 6, whole);
// @h c14_wmut_typed_image_p6 | prop=C14 | tier=thorough | t=1800 | mem=12 | flags=--no-assertion-reach-checks --no-memory-safety-checks --no-overflow-checks | enc=ImageViewMut::split_by_width_mut default (UnsafeImageMut + TypedCroppedImageMut) | bounds=symbolic: start 0..=7, size 1..=7; enumerated: parts=6, TypedImage 4x5; write-through check on the parent buffer; unwind 7
c14_mut!(c14_wmut_typed_image_p6, check_split_by_width_mut, false, 6, whole);
// @h c14_hmut_cropped_interior_p1 | prop=C14 | tier=quick | t=2400 | mem=18 | flags=--no-assertion-reach-checks --no-memory-safety-checks --no-overflow-checks | enc=TypedCroppedImageMut::split_by_height_mut -> TypedImage::split_by_height_mut | bounds=symbolic: start 0..=6, size 1..=6; enumerated: parts=1, TypedCroppedImageMut 2x3 at (1,2) of a 4x5 TypedImage; write-through check; unwind 7
c14_mut!(c14_hmut_cropped_interior_p1, check_split_by_height_mut, true, 1, (1, 2, 2, 3));
// @h c14_wmut_cropped_interior_p1 | prop=C14 | tier=quick | t=2400 | mem=18 | flags=--no-assertion-reach-checks --no-memory-safety-checks --no-overflow-checks | enc=TypedCroppedImageMut::split_by_width_mut -> ImageViewMut::split_by_width_mut default | bounds=symbolic: start 0..=5, size 1..=5; enumerated: parts=1, TypedCroppedImageMut 2x3 at (1,2) of a 4x5 TypedImage; write-through check; unwind 7
c14_mut!(c14_wmut_cropped_interior_p1, check_split_by_width_mut, false, 1, (1, 2, 2, 3));
// @h c14_hmut_cropped_interior_p2 | prop=C14 | tier=quick | t=2400 | mem=18 | flags=--no-assertion-reach-checks --no-memory-safety-checks --no-overflow-checks | enc=TypedCroppedImageMut::split_by_height_mut -> TypedImage::split_by_height_mut | bounds=symbolic: start 0..=6, size 1..=6; enumerated: parts=2, TypedCroppedImageMut 2x3 at (1,2) of a 4x5 TypedImage; write-through check; unwind 7
c14_mut!(c14_hmut_cropped_interior_p2, check_split_by_height_mut, true, 2, (1, 2, 2, 3));
// @h c14_wmut_cropped_interior_p2 | prop=C14 | tier=quick | t=2400 | mem=18 | flags=--no-assertion-reach-checks --no-memory-safety-checks --no-overflow-checks | enc=TypedCroppedImageMut::split_by_width_mut -> ImageViewMut::split_by_width_mut default | bounds=symbolic: start 0..=5, size 1..=5; enumerated: parts=2, TypedCroppedImageMut 2x3 at (1,2) of a 4x5 TypedImage; write-through check; unwind 7
c14_mut!(c14_wmut_cropped_interior_p2, check_split_by_width_mut, false, 2, (1, 2, 2, 3));
// @h c14_hmut_cropped_interior_p3 | prop=C14 | tier=thorough | t=2400 | mem=18 | flags=--no-assertion-reach-checks --no-memory-safety-checks --no-overflow-checks | enc=TypedCroppedImageMut::split_by_height_mut -> TypedImage::split_by_height_mut | bounds=symbolic: start 0..=6, size 1..=6; enumerated: parts=3, TypedCroppedImageMut 2x3 at (1,2) of a 4x5 TypedImage; write-through check; unwind 7
c14_mut!(c14_hmut_cropped_interior_p3, check_split_by_height_mut, true, 3, (1, 2, 2, 3));
// @h c14_wmut_cropped_interior_p3 | prop=C14 | tier=thorough | t=2400 | mem=18 | flags=--no-assertion-reach-checks --no-memory-safety-checks --no-overflow-checks | enc=TypedCroppedImageMut::split_by_width_mut -> ImageViewMut::split_by_width_mut default | bounds=symbolic: start 0..=5, size 1..=5; enumerated: parts=3, TypedCroppedImageMut 2x3 at (1,2) of a 4x5 TypedImage; write-through check; unwind 7
c14_mut!(c14_wmut_cropped_interior_p3, check_split_by_width_mut, false, 3, (1, 2, 2, 3));
