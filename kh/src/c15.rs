//! C15 Fit-into-destination crop is in bounds, keeps aspect, honours centering.
//! Bound: all four sizes symbolic in 1..=B (B small: the f64 divide/multiply chain does not
//! finish for larger B); centering any non-NaN f64 pair.
use crate::common::SizeOnlyView;
use fast_image_resize::*;

/// (requested centering, the same value clamped to [0, 1])
fn pick_centering() -> (f64, f64) {
    let i: u8 = kani::any();
    kani::assume(i < 8);
    match i {
        0 => (-3.5, 0.0),
        1 => (0.0, 0.0),
        2 => (0.25, 0.25),
        3 => (0.5, 0.5),
        4 => (0.75, 0.75),
        5 => (1.0, 1.0),
        6 => (7.0, 1.0),
        _ => (f64::INFINITY, 1.0),
    }
}

#[derive(Clone, Copy, PartialEq)]
enum Part {
    Bounds,
    Centering,
    Aspect,
}

fn fit_case(b_max: u32, part: Part) {
    let sw: u32 = kani::any();
    let sh: u32 = kani::any();
    let dw: u32 = kani::any();
    let dh: u32 = kani::any();
    kani::assume(sw >= 1 && sw <= b_max && sh >= 1 && sh <= b_max);
    kani::assume(dw >= 1 && dw <= b_max && dh >= 1 && dh <= b_max);
    let (cx, cy, kx, ky): (f64, f64, f64, f64) = if part == Part::Centering {
        // The centering check multiplies two symbolic doubles; with a free f64 it does not finish
        // (30 min).  Here the centering is picked (symbolically) from a table that covers below /
        // inside / above [0,1] and both infinities, together with its clamped value.
        let (ax, bx) = pick_centering();
        let (ay, by) = pick_centering();
        (ax, ay, bx, by)
    } else {
        let cx: f64 = kani::any();
        let cy: f64 = kani::any();
        kani::assume(!cx.is_nan() && !cy.is_nan());
        (cx, cy, 0., 0.)
    };
    let b = CropBox::fit_src_into_dst_size(sw, sh, dw, dh, Some((cx, cy)));
    let (w, h) = (sw as f64, sh as f64);
    match part {
        Part::Bounds => {
            assert!(b.width > 0. && b.height > 0., "C15: crop box has positive size");
            assert!(b.left >= 0. && b.top >= 0., "C15: crop box origin is not negative");
            assert!(b.left + b.width <= w, "C15: crop box does not exceed the source on the right");
            assert!(b.top + b.height <= h, "C15: crop box does not exceed the source at the bottom");
            // literally "the resize never fails with a cropping error"
            let v = SizeOnlyView { w: sw, h: sh };
            assert!(verif_api::validate_crop_box(&v, b).is_ok(), "C15: the computed crop box passes validation");
            assert!(b.width == w || b.height == h, "C15: crop box spans the full source in at least one dimension");
        }
        Part::Centering => {
            assert!(b.left == (w - b.width) * kx, "C15: left margin = removed width * clamped centering");
            assert!(b.top == (h - b.height) * ky, "C15: top margin = removed height * clamped centering");
        }
        Part::Aspect => {
            // width/height == dw/dh up to rounding, written without a division of symbolic floats:
            // |width * dh - height * dw| <= tolerance
            let lhs = b.width * dh as f64;
            let rhs = b.height * dw as f64;
            let tol = (lhs + rhs) * 1e-12;
            assert!(lhs - rhs <= tol && rhs - lhs <= tol, "C15: crop box has the destination's aspect ratio");
        }
    }
    kani::cover!(b.width < w && cx > 0.25 && cx < 0.75, "sides cropped, interior centering");
    kani::cover!(b.height < h && cy > 1.0, "top/bottom cropped, centering above 1");
    kani::cover!(b.width == w && b.height == h && sw != dw, "same ratio, different size");
}

macro_rules! c15 {
    ($name:ident, $b:expr, $part:ident) => {
        #[kani::proof]
        pub fn $name() {
            fit_case($b, Part::$part);
        }
    };
}

// @h c15_bounds_b3 | prop=C15 | tier=quick | t=1800 | mem=8 | enc=CropBox::fit_src_into_dst_size, CroppedSrcImageView::crop (via verif_api::validate_crop_box) | bounds=symbolic: src and dst sizes each 1..=3, centering any non-NaN f64 pair incl. inf and values outside [0,1]; no loops
c15!(c15_bounds_b3, 3, Bounds);
// @h c15_centering_b3 | prop=C15 | tier=quick | t=1800 | mem=8 | enc=CropBox::fit_src_into_dst_size | bounds=symbolic: sizes 1..=3, centering pair picked symbolically from {-3.5, 0, 0.25, 0.5, 0.75, 1, 7, +inf}^2; no loops
c15!(c15_centering_b3, 3, Centering);
// @h c15_aspect_b3 | prop=C15 | tier=quick | t=1800 | mem=8 | enc=CropBox::fit_src_into_dst_size | bounds=symbolic: sizes 1..=3, centering any non-NaN f64 pair; no loops
c15!(c15_aspect_b3, 3, Aspect);
// @h c15_bounds_b5 | prop=C15 | tier=thorough | t=3600 | mem=10 | enc=CropBox::fit_src_into_dst_size, CroppedSrcImageView::crop | bounds=symbolic: sizes 1..=5, centering any non-NaN f64 pair; no loops
c15!(c15_bounds_b5, 5, Bounds);
// @h c15_bounds_b7 | prop=C15 | tier=thorough | t=5400 | mem=12 | enc=CropBox::fit_src_into_dst_size, CroppedSrcImageView::crop | bounds=symbolic: sizes 1..=7, centering any non-NaN f64 pair; no loops
c15!(c15_bounds_b7, 7, Bounds);
// @h c15_bounds_b31 | prop=C15 | tier=thorough | t=5400 | mem=14 | enc=CropBox::fit_src_into_dst_size, CroppedSrcImageView::crop | bounds=symbolic: sizes 1..=31, centering any non-NaN f64 pair; no loops
c15!(c15_bounds_b31, 31, Bounds);
// @h c15_centering_b5 | prop=C15 | tier=thorough | t=3600 | mem=10 | enc=CropBox::fit_src_into_dst_size | bounds=symbolic: sizes 1..=5, centering pair from the 8-value table; no loops
c15!(c15_centering_b5, 5, Centering);
// @h c15_aspect_b5 | prop=C15 | tier=thorough | t=3600 | mem=10 | enc=CropBox::fit_src_into_dst_size | bounds=symbolic: sizes 1..=5; no loops
c15!(c15_aspect_b5, 5, Aspect);

// @h c15_fit_zero | prop=C15 | tier=quick | t=600 | enc=CropBox::fit_src_into_dst_size (zero sizes) | bounds=symbolic: all u32 sizes with at least one zero, any centering; no loops
#[kani::proof]
pub fn c15_fit_zero() {
    let sw: u32 = kani::any();
    let sh: u32 = kani::any();
    let dw: u32 = kani::any();
    let dh: u32 = kani::any();
    kani::assume(sw == 0 || sh == 0 || dw == 0 || dh == 0);
    let cx: f64 = kani::any();
    let cy: f64 = kani::any();
    let b = CropBox::fit_src_into_dst_size(sw, sh, dw, dh, Some((cx, cy)));
    assert!(b.left == 0. && b.top == 0. && b.width == sw as f64 && b.height == sh as f64, "C15: zero size gives the whole-image box");
    kani::cover!(dw == 0 && sw > 0, "zero destination width");
}
