//! C17 Depth conversion is monotone, keeps endpoints, lossless when widening.
//!
//! Every harness drives the public `change_type_of_pixel_components_typed` (or the
//! dynamic entry point) on a 2x1 / 1x1 image whose component values are symbolic,
//! i.e. all 2^16 / 2^32 / 2^64 value pairs are decided at once.
use fast_image_resize::images::*;
use fast_image_resize::pixels::*;
use fast_image_resize::*;

fn conv2<S, D>(a: S, b: S) -> (D, D)
where
    S: InnerPixel,
    D: InnerPixel<CountOfComponents = S::CountOfComponents>,
    <S as InnerPixel>::Component: IntoPixelComponent<<D as InnerPixel>::Component>,
{
    let mut sp = [a, b];
    let mut dp = [D::default(); 2];
    let src = TypedImage::from_pixels_slice(2, 1, &mut sp).unwrap();
    let mut dst = TypedImage::from_pixels_slice(2, 1, &mut dp).unwrap();
    let r = change_type_of_pixel_components_typed(&src, &mut dst);
    assert!(r.is_ok(), "C17: same-size conversion must succeed");
    (dp[0], dp[1])
}

fn conv1<S, D>(a: S) -> D
where
    S: InnerPixel,
    D: InnerPixel<CountOfComponents = S::CountOfComponents>,
    <S as InnerPixel>::Component: IntoPixelComponent<<D as InnerPixel>::Component>,
{
    let mut sp = [a];
    let mut dp = [D::default(); 1];
    let src = TypedImage::from_pixels_slice(1, 1, &mut sp).unwrap();
    let mut dst = TypedImage::from_pixels_slice(1, 1, &mut dp).unwrap();
    let r = change_type_of_pixel_components_typed(&src, &mut dst);
    assert!(r.is_ok(), "C17: same-size conversion must succeed");
    dp[0]
}

// ---- integer -> integer / float ---------------------------------------------------------

// @h c17_u8_to_u16 | prop=C17 | tier=quick | t=300 | enc=change_type_of_pixel_components_typed<U8,U16>, <u8 as IntoPixelComponent<u16>>::into_component | bounds=symbolic: both component values (all 2^16 pairs); image 2x1; unwind 4
#[kani::proof]
#[kani::unwind(4)]
pub fn c17_u8_to_u16() {
    let a: u8 = kani::any();
    let b: u8 = kani::any();
    let (fa, fb) = conv2::<U8, U16>(U8::new(a), U8::new(b));
    assert!(!(a <= b) || fa.0 <= fb.0, "C17: u8->u16 monotone");
    assert!(a != 0 || fa.0 == 0, "C17: u8->u16 min->min");
    assert!(a != 255 || fa.0 == 65535, "C17: u8->u16 max->max");
    // widening round trip
    let back: U8 = conv1::<U16, U8>(fa);
    assert!(back.0 == a, "C17: u8->u16->u8 is the identity");
    kani::cover!(a < b && fa.0 < fb.0, "strictly increasing pair");
}

// @h c17_u16_to_u8 | prop=C17 | tier=quick | t=300 | enc=change_type_of_pixel_components_typed<U16,U8> | bounds=symbolic: both component values (all 2^32 pairs); unwind 4
#[kani::proof]
#[kani::unwind(4)]
pub fn c17_u16_to_u8() {
    let a: u16 = kani::any();
    let b: u16 = kani::any();
    let (fa, fb) = conv2::<U16, U8>(U16::new(a), U16::new(b));
    assert!(!(a <= b) || fa.0 <= fb.0, "C17: u16->u8 monotone");
    assert!(a != 0 || fa.0 == 0, "C17: u16->u8 min->min");
    assert!(a != 65535 || fa.0 == 255, "C17: u16->u8 max->max");
    kani::cover!(a < b && fa.0 < fb.0, "strictly increasing pair");
}

// @h c17_u8_to_i32 | prop=C17 | tier=quick | t=300 | enc=change_type_of_pixel_components_typed<U8,I32>, <I32,U8> | bounds=symbolic: both component values; unwind 4
#[kani::proof]
#[kani::unwind(4)]
pub fn c17_u8_to_i32() {
    let a: u8 = kani::any();
    let b: u8 = kani::any();
    let (fa, fb) = conv2::<U8, I32>(U8::new(a), U8::new(b));
    assert!(!(a <= b) || fa.0 <= fb.0, "C17: u8->i32 monotone");
    assert!(a != 0 || fa.0 == 0, "C17: u8->i32 min->min");
    assert!(a != 255 || fa.0 == i32::MAX, "C17: u8->i32 max->i32::MAX");
    let back: U8 = conv1::<I32, U8>(fa);
    assert!(back.0 == a, "C17: u8->i32->u8 is the identity");
    kani::cover!(a < b && fa.0 < fb.0, "strictly increasing pair");
}

// @h c17_u16_to_i32 | prop=C17 | tier=quick | t=300 | enc=change_type_of_pixel_components_typed<U16,I32>, <I32,U16> | bounds=symbolic: both component values; unwind 4
#[kani::proof]
#[kani::unwind(4)]
pub fn c17_u16_to_i32() {
    let a: u16 = kani::any();
    let b: u16 = kani::any();
    let (fa, fb) = conv2::<U16, I32>(U16::new(a), U16::new(b));
    assert!(!(a <= b) || fa.0 <= fb.0, "C17: u16->i32 monotone");
    assert!(a != 0 || fa.0 == 0, "C17: u16->i32 min->min");
    assert!(a != 65535 || fa.0 == i32::MAX, "C17: u16->i32 max->i32::MAX");
    let back: U16 = conv1::<I32, U16>(fa);
    assert!(back.0 == a, "C17: u16->i32->u16 is the identity");
    kani::cover!(a < b && fa.0 < fb.0, "strictly increasing pair");
}

// @h c17_u8_to_f32 | prop=C17 | tier=quick | t=600 | enc=change_type_of_pixel_components_typed<U8,F32>, <F32,U8> | bounds=symbolic: both component values; one f32 division / multiplication+round per value; unwind 4
#[kani::proof]
#[kani::unwind(4)]
pub fn c17_u8_to_f32() {
    let a: u8 = kani::any();
    let b: u8 = kani::any();
    let (fa, fb) = conv2::<U8, F32>(U8::new(a), U8::new(b));
    assert!(!(a <= b) || fa.0 <= fb.0, "C17: u8->f32 monotone");
    assert!(a != 0 || fa.0 == 0.0, "C17: u8->f32 min->0.0");
    assert!(a != 255 || fa.0 == 1.0, "C17: u8->f32 max->1.0");
    assert!(fa.0 >= 0.0 && fa.0 <= 1.0, "C17: u8->f32 stays in [0,1]");
    let back: U8 = conv1::<F32, U8>(fa);
    assert!(back.0 == a, "C17: u8->f32->u8 is the identity");
    kani::cover!(a < b && fa.0 < fb.0, "strictly increasing pair");
}

// @h c17_u16_to_f32 | prop=C17 | tier=quick | t=900 | enc=change_type_of_pixel_components_typed<U16,F32>, <F32,U16> | bounds=symbolic: both component values; unwind 4
#[kani::proof]
#[kani::unwind(4)]
pub fn c17_u16_to_f32() {
    let a: u16 = kani::any();
    let b: u16 = kani::any();
    let (fa, fb) = conv2::<U16, F32>(U16::new(a), U16::new(b));
    assert!(!(a <= b) || fa.0 <= fb.0, "C17: u16->f32 monotone");
    assert!(a != 0 || fa.0 == 0.0, "C17: u16->f32 min->0.0");
    assert!(a != 65535 || fa.0 == 1.0, "C17: u16->f32 max->1.0");
    assert!(fa.0 >= 0.0 && fa.0 <= 1.0, "C17: u16->f32 stays in [0,1]");
    let back: U16 = conv1::<F32, U16>(fa);
    assert!(back.0 == a, "C17: u16->f32->u16 is the identity");
    kani::cover!(a < b && fa.0 < fb.0, "strictly increasing pair");
}

// ---- i32 sources ------------------------------------------------------------------------

// @h c17_i32_to_u8 | prop=C17 | tier=quick | t=300 | enc=change_type_of_pixel_components_typed<I32,U8> | bounds=symbolic: both component values (all 2^64 pairs); unwind 4
#[kani::proof]
#[kani::unwind(4)]
pub fn c17_i32_to_u8() {
    let a: i32 = kani::any();
    let b: i32 = kani::any();
    let (fa, fb) = conv2::<I32, U8>(I32::new(a), I32::new(b));
    assert!(!(a <= b) || fa.0 <= fb.0, "C17: i32->u8 monotone");
    assert!(a > 0 || fa.0 == 0, "C17: i32->u8 min and below -> 0");
    assert!(a != i32::MAX || fa.0 == 255, "C17: i32->u8 max->max");
    kani::cover!(a < 0 && b > 0 && fb.0 > 0, "negative and positive input");
}

// @h c17_i32_to_u16 | prop=C17 | tier=quick | t=300 | enc=change_type_of_pixel_components_typed<I32,U16> | bounds=symbolic: both component values (all 2^64 pairs); unwind 4
#[kani::proof]
#[kani::unwind(4)]
pub fn c17_i32_to_u16() {
    let a: i32 = kani::any();
    let b: i32 = kani::any();
    let (fa, fb) = conv2::<I32, U16>(I32::new(a), I32::new(b));
    assert!(!(a <= b) || fa.0 <= fb.0, "C17: i32->u16 monotone");
    assert!(a > 0 || fa.0 == 0, "C17: i32->u16 min and below -> 0");
    assert!(a != i32::MAX || fa.0 == 65535, "C17: i32->u16 max->max");
    kani::cover!(a < 0 && b > 0 && fb.0 > 0, "negative and positive input");
}

// @h c17_i32_to_f32 | prop=C17 | tier=quick | t=900 | enc=change_type_of_pixel_components_typed<I32,F32> | bounds=symbolic: both component values (all 2^64 pairs); unwind 4
#[kani::proof]
#[kani::unwind(4)]
pub fn c17_i32_to_f32() {
    let a: i32 = kani::any();
    let b: i32 = kani::any();
    let (fa, fb) = conv2::<I32, F32>(I32::new(a), I32::new(b));
    if a >= 0 {
        assert!(!(a <= b) || fa.0 <= fb.0, "C17: i32->f32 monotone on non-negative input");
    } else {
        assert!(!(a <= b) || fa.0 <= fb.0, "C17: i32->f32 monotone when negative input is involved");
    }
    assert!(a != 0 || fa.0 == 0.0, "C17: i32->f32 0->0.0");
    assert!(a != i32::MAX || fa.0 == 1.0, "C17: i32->f32 max->1.0");
    assert!(a != i32::MIN || fa.0 == -1.0, "C17: i32->f32 min->-1.0");
    assert!(fa.0 >= -1.0 && fa.0 <= 1.0, "C17: i32->f32 stays in [-1,1]");
    kani::cover!(a < 0 && b > 0, "negative and positive input");
}

// ---- f32 sources ------------------------------------------------------------------------

// @h c17_f32_to_u8 | prop=C17 | tier=quick | t=900 | enc=change_type_of_pixel_components_typed<F32,U8> | bounds=symbolic: both component values, every f32 bit pattern incl. NaN/inf; unwind 4
#[kani::proof]
#[kani::unwind(4)]
pub fn c17_f32_to_u8() {
    let a: f32 = kani::any();
    let b: f32 = kani::any();
    let (fa, fb) = conv2::<F32, U8>(F32::new(a), F32::new(b));
    assert!(!(a <= b) || fa.0 <= fb.0, "C17: f32->u8 monotone");
    assert!(!(a <= 0.0) || fa.0 == 0, "C17: f32->u8 0.0 and below saturate to 0");
    assert!(!(a >= 1.0) || fa.0 == 255, "C17: f32->u8 1.0 and above saturate to max");
    kani::cover!(a > 0.0 && a < 1.0 && fa.0 == 128, "interior value");
    kani::cover!(a.is_nan(), "NaN input reachable");
}

// @h c17_f32_to_u16 | prop=C17 | tier=quick | t=900 | enc=change_type_of_pixel_components_typed<F32,U16> | bounds=symbolic: both component values, every f32 bit pattern; unwind 4
#[kani::proof]
#[kani::unwind(4)]
pub fn c17_f32_to_u16() {
    let a: f32 = kani::any();
    let b: f32 = kani::any();
    let (fa, fb) = conv2::<F32, U16>(F32::new(a), F32::new(b));
    assert!(!(a <= b) || fa.0 <= fb.0, "C17: f32->u16 monotone");
    assert!(!(a <= 0.0) || fa.0 == 0, "C17: f32->u16 0.0 and below saturate to 0");
    assert!(!(a >= 1.0) || fa.0 == 65535, "C17: f32->u16 1.0 and above saturate to max");
    kani::cover!(a > 0.0 && a < 1.0 && fa.0 == 32768, "interior value");
    kani::cover!(a.is_infinite(), "infinite input reachable");
}

// @h c17_f32_to_i32 | prop=C17 | tier=quick | t=900 | enc=change_type_of_pixel_components_typed<F32,I32> | bounds=symbolic: both component values, every f32 bit pattern; unwind 4
#[kani::proof]
#[kani::unwind(4)]
pub fn c17_f32_to_i32() {
    let a: f32 = kani::any();
    let b: f32 = kani::any();
    let (fa, fb) = conv2::<F32, I32>(F32::new(a), F32::new(b));
    if a >= 0.0 {
        assert!(!(a <= b) || fa.0 <= fb.0, "C17: f32->i32 monotone on non-negative input");
    } else {
        assert!(!(a <= b) || fa.0 <= fb.0, "C17: f32->i32 monotone when negative input is involved");
    }
    assert!(a != 0.0 || fa.0 == 0, "C17: f32->i32 0.0->0");
    assert!(!(a >= 1.0) || fa.0 == i32::MAX, "C17: f32->i32 1.0 and above saturate to max");
    assert!(!(a <= -1.0) || fa.0 == i32::MIN, "C17: f32->i32 -1.0 and below saturate to min");
    kani::cover!(a < 0.0 && b > 0.0, "negative and positive input");
    kani::cover!(a.is_nan(), "NaN input reachable");
}

// ---- multi-component pixel types go through the same per-component code -----------------

// @h c17_u8x3_to_u16x3 | prop=C17 | tier=quick | t=600 | enc=change_type_of_pixel_components_typed<U8x3,U16x3>, <U16x3,U8x3>, InnerPixel::components(_mut) | bounds=symbolic: all 6 components of a 2x1 U8x3 image; unwind 8
#[kani::proof]
#[kani::unwind(8)]
pub fn c17_u8x3_to_u16x3() {
    let a: [u8; 3] = kani::any();
    let b: [u8; 3] = kani::any();
    let (fa, fb) = conv2::<U8x3, U16x3>(U8x3::new(a), U8x3::new(b));
    let mut i = 0;
    while i < 3 {
        assert!(fa.0[i] == u16::from_le_bytes([a[i], a[i]]), "C17: component i of pixel 0 converted in place");
        assert!(fb.0[i] == u16::from_le_bytes([b[i], b[i]]), "C17: component i of pixel 1 converted in place");
        i += 1;
    }
    let (ra, rb) = conv2::<U16x3, U8x3>(fa, fb);
    assert!(ra.0 == a && rb.0 == b, "C17: u8x3->u16x3->u8x3 is the identity");
    kani::cover!(a[0] != a[1] && a[1] != a[2] && b[0] != a[0], "distinct components");
}

// ---- rejections -------------------------------------------------------------------------

// @h c17_reject_dimensions | prop=C17 | tier=quick | t=600 | enc=change_type_of_pixel_components_typed (dimension check) | bounds=symbolic: source and destination sizes each 0..=2 x 0..=2 over 4-pixel buffers; unwind 6
#[kani::proof]
#[kani::unwind(6)]
pub fn c17_reject_dimensions() {
    let sw: u32 = kani::any();
    let sh: u32 = kani::any();
    let dw: u32 = kani::any();
    let dh: u32 = kani::any();
    kani::assume(sw <= 2 && sh <= 2 && dw <= 2 && dh <= 2);
    let mut sp = [U8::new(7); 4];
    let mut dp = [U16::new(1); 4];
    let src = TypedImage::from_pixels_slice(sw, sh, &mut sp).unwrap();
    let mut dst = TypedImage::from_pixels_slice(dw, dh, &mut dp).unwrap();
    let r = change_type_of_pixel_components_typed(&src, &mut dst);
    let same = sw == dw && sh == dh;
    assert!(r.is_ok() == same, "C17: conversion accepted iff dimensions are equal");
    drop(dst);
    if !same {
        let mut i = 0;
        while i < 4 {
            assert!(dp[i].0 == 1, "C17: destination untouched when rejected");
            i += 1;
        }
    }
    kani::cover!(same && sw == 2 && sh == 2, "accepted 2x2");
    kani::cover!(!same, "rejected");
}

fn pixel_type_of(k: u8) -> PixelType {
    match k {
        0 => PixelType::U8,
        1 => PixelType::U8x2,
        2 => PixelType::U8x3,
        3 => PixelType::U8x4,
        4 => PixelType::U16,
        5 => PixelType::U16x2,
        6 => PixelType::U16x3,
        7 => PixelType::U16x4,
        8 => PixelType::I32,
        9 => PixelType::F32,
        10 => PixelType::F32x2,
        11 => PixelType::F32x3,
        _ => PixelType::F32x4,
    }
}

fn components_of(k: u8) -> u8 {
    match k {
        0 | 4 | 8 | 9 => 1,
        1 | 5 | 10 => 2,
        2 | 6 | 11 => 3,
        _ => 4,
    }
}

macro_rules! c17_dyn {
    ($name:ident, $src:expr, $dst:expr) => {
        #[kani::proof]
        #[kani::unwind(18)]
        pub fn $name() {
            let s: u8 = $src;
            let d: u8 = $dst;
            let src = Image::new(1, 1, pixel_type_of(s));
            let mut dst = Image::new(1, 1, pixel_type_of(d));
            let r = change_type_of_pixel_components(&src, &mut dst);
            if components_of(s) != components_of(d) {
                assert!(
                    r == Err(MappingError::UnsupportedCombinationOfImageTypes),
                    "C17: different component counts are rejected"
                );
            } else {
                assert!(r.is_ok(), "C17: equal component counts are converted");
            }
            kani::cover!(r.is_ok() == (components_of(s) == components_of(d)), "verdict reached");
        }
    };
}

// @h c17_dyn_u8_u8x2 | prop=C17 | tier=thorough | t=1500 | mem=14 | enc=change_type_of_pixel_components (dynamic dispatch), Image::new, Image::image_view(_mut) | bounds=enumerated: U8 -> U8x2, 1x1 zero image; unwind 6
c17_dyn!(c17_dyn_u8_u8x2, 0, 1);
// @h c17_dyn_u8_u16 | prop=C17 | tier=thorough | t=1500 | mem=14 | enc=change_type_of_pixel_components (dynamic dispatch), Image::new, Image::image_view(_mut) | bounds=enumerated: U8 -> U16, 1x1 zero image; unwind 6
c17_dyn!(c17_dyn_u8_u16, 0, 4);
// @h c17_dyn_u8_i32 | prop=C17 | tier=quick | t=1500 | mem=14 | enc=change_type_of_pixel_components (dynamic dispatch), Image::new, Image::image_view(_mut) | bounds=enumerated: U8 -> I32, 1x1 zero image; unwind 6
c17_dyn!(c17_dyn_u8_i32, 0, 8);
// @h c17_dyn_u8x2_u8x3 | prop=C17 | tier=quick | t=1500 | mem=14 | enc=change_type_of_pixel_components (dynamic dispatch), Image::new, Image::image_view(_mut) | bounds=enumerated: U8x2 -> U8x3, 1x1 zero image; unwind 6
c17_dyn!(c17_dyn_u8x2_u8x3, 1, 2);
// @h c17_dyn_u8x2_u16x2 | prop=C17 | tier=quick | t=1500 | mem=14 | enc=change_type_of_pixel_components (dynamic dispatch), Image::new, Image::image_view(_mut) | bounds=enumerated: U8x2 -> U16x2, 1x1 zero image; unwind 6
c17_dyn!(c17_dyn_u8x2_u16x2, 1, 5);
// @h c17_dyn_u8x2_u16x4 | prop=C17 | tier=thorough | t=1500 | mem=14 | enc=change_type_of_pixel_components (dynamic dispatch), Image::new, Image::image_view(_mut) | bounds=enumerated: U8x2 -> U16x4, 1x1 zero image; unwind 6
c17_dyn!(c17_dyn_u8x2_u16x4, 1, 7);
// @h c17_dyn_u8x3_u8 | prop=C17 | tier=thorough | t=1500 | mem=14 | enc=change_type_of_pixel_components (dynamic dispatch), Image::new, Image::image_view(_mut) | bounds=enumerated: U8x3 -> U8, 1x1 zero image; unwind 6
c17_dyn!(c17_dyn_u8x3_u8, 2, 0);
// @h c17_dyn_u8x3_u16x3 | prop=C17 | tier=thorough | t=1500 | mem=14 | enc=change_type_of_pixel_components (dynamic dispatch), Image::new, Image::image_view(_mut) | bounds=enumerated: U8x3 -> U16x3, 1x1 zero image; unwind 6
c17_dyn!(c17_dyn_u8x3_u16x3, 2, 6);
// @h c17_dyn_u8x4_u16x3 | prop=C17 | tier=thorough | t=1500 | mem=14 | enc=change_type_of_pixel_components (dynamic dispatch), Image::new, Image::image_view(_mut) | bounds=enumerated: U8x4 -> U16x3, 1x1 zero image; unwind 6
c17_dyn!(c17_dyn_u8x4_u16x3, 3, 6);
// @h c17_dyn_u8x4_u16x4 | prop=C17 | tier=thorough | t=1500 | mem=14 | enc=change_type_of_pixel_components (dynamic dispatch), Image::new, Image::image_view(_mut) | bounds=enumerated: U8x4 -> U16x4, 1x1 zero image; unwind 6
c17_dyn!(c17_dyn_u8x4_u16x4, 3, 7);
// @h c17_dyn_u16_u8 | prop=C17 | tier=thorough | t=1500 | mem=14 | enc=change_type_of_pixel_components (dynamic dispatch), Image::new, Image::image_view(_mut) | bounds=enumerated: U16 -> U8, 1x1 zero image; unwind 6
c17_dyn!(c17_dyn_u16_u8, 4, 0);
// @h c17_dyn_u16_u8x4 | prop=C17 | tier=thorough | t=1500 | mem=14 | enc=change_type_of_pixel_components (dynamic dispatch), Image::new, Image::image_view(_mut) | bounds=enumerated: U16 -> U8x4, 1x1 zero image; unwind 6
c17_dyn!(c17_dyn_u16_u8x4, 4, 3);
// @h c17_dyn_u16_u16 | prop=C17 | tier=thorough | t=1500 | mem=14 | enc=change_type_of_pixel_components (dynamic dispatch), Image::new, Image::image_view(_mut) | bounds=enumerated: U16 -> U16, 1x1 zero image; unwind 6
c17_dyn!(c17_dyn_u16_u16, 4, 4);
// @h c17_dyn_u16x2_u8x2 | prop=C17 | tier=thorough | t=1500 | mem=14 | enc=change_type_of_pixel_components (dynamic dispatch), Image::new, Image::image_view(_mut) | bounds=enumerated: U16x2 -> U8x2, 1x1 zero image; unwind 6
c17_dyn!(c17_dyn_u16x2_u8x2, 5, 1);
// @h c17_dyn_u16x2_u16x4 | prop=C17 | tier=thorough | t=1500 | mem=14 | enc=change_type_of_pixel_components (dynamic dispatch), Image::new, Image::image_view(_mut) | bounds=enumerated: U16x2 -> U16x4, 1x1 zero image; unwind 6
c17_dyn!(c17_dyn_u16x2_u16x4, 5, 7);
// @h c17_dyn_u16x3_u8 | prop=C17 | tier=thorough | t=1500 | mem=14 | enc=change_type_of_pixel_components (dynamic dispatch), Image::new, Image::image_view(_mut) | bounds=enumerated: U16x3 -> U8, 1x1 zero image; unwind 6
c17_dyn!(c17_dyn_u16x3_u8, 6, 0);
// @h c17_dyn_u16x3_u8x3 | prop=C17 | tier=thorough | t=1500 | mem=14 | enc=change_type_of_pixel_components (dynamic dispatch), Image::new, Image::image_view(_mut) | bounds=enumerated: U16x3 -> U8x3, 1x1 zero image; unwind 6
c17_dyn!(c17_dyn_u16x3_u8x3, 6, 2);
// @h c17_dyn_u16x4_u8x4 | prop=C17 | tier=thorough | t=1500 | mem=14 | enc=change_type_of_pixel_components (dynamic dispatch), Image::new, Image::image_view(_mut) | bounds=enumerated: U16x4 -> U8x4, 1x1 zero image; unwind 6
c17_dyn!(c17_dyn_u16x4_u8x4, 7, 3);
// @h c17_dyn_u16x4_u16x3 | prop=C17 | tier=thorough | t=1500 | mem=14 | enc=change_type_of_pixel_components (dynamic dispatch), Image::new, Image::image_view(_mut) | bounds=enumerated: U16x4 -> U16x3, 1x1 zero image; unwind 6
c17_dyn!(c17_dyn_u16x4_u16x3, 7, 6);
// @h c17_dyn_i32_u8 | prop=C17 | tier=thorough | t=1500 | mem=14 | enc=change_type_of_pixel_components (dynamic dispatch), Image::new, Image::image_view(_mut) | bounds=enumerated: I32 -> U8, 1x1 zero image; unwind 6
c17_dyn!(c17_dyn_i32_u8, 8, 0);
// @h c17_dyn_i32_u16x3 | prop=C17 | tier=thorough | t=1500 | mem=14 | enc=change_type_of_pixel_components (dynamic dispatch), Image::new, Image::image_view(_mut) | bounds=enumerated: I32 -> U16x3, 1x1 zero image; unwind 6
c17_dyn!(c17_dyn_i32_u16x3, 8, 6);
// @h c17_dyn_f32_u8 | prop=C17 | tier=thorough | t=1500 | mem=14 | enc=change_type_of_pixel_components (dynamic dispatch), Image::new, Image::image_view(_mut) | bounds=enumerated: F32 -> U8, 1x1 zero image; unwind 6
c17_dyn!(c17_dyn_f32_u8, 9, 0);
// @h c17_dyn_f32_u8x2 | prop=C17 | tier=thorough | t=1500 | mem=14 | enc=change_type_of_pixel_components (dynamic dispatch), Image::new, Image::image_view(_mut) | bounds=enumerated: F32 -> U8x2, 1x1 zero image; unwind 6
c17_dyn!(c17_dyn_f32_u8x2, 9, 1);
// @h c17_dyn_f32_u16x2 | prop=C17 | tier=quick | t=1500 | mem=14 | enc=change_type_of_pixel_components (dynamic dispatch), Image::new, Image::image_view(_mut) | bounds=enumerated: F32 -> U16x2, 1x1 zero image; unwind 6
c17_dyn!(c17_dyn_f32_u16x2, 9, 5);
// @h c17_dyn_f32x2_u8 | prop=C17 | tier=thorough | t=1500 | mem=14 | enc=change_type_of_pixel_components (dynamic dispatch), Image::new, Image::image_view(_mut) | bounds=enumerated: F32x2 -> U8, 1x1 zero image; unwind 6
c17_dyn!(c17_dyn_f32x2_u8, 10, 0);
// @h c17_dyn_f32x2_u8x2 | prop=C17 | tier=thorough | t=1500 | mem=14 | enc=change_type_of_pixel_components (dynamic dispatch), Image::new, Image::image_view(_mut) | bounds=enumerated: F32x2 -> U8x2, 1x1 zero image; unwind 6
c17_dyn!(c17_dyn_f32x2_u8x2, 10, 1);
// @h c17_dyn_f32x3_u8x3 | prop=C17 | tier=thorough | t=1500 | mem=14 | enc=change_type_of_pixel_components (dynamic dispatch), Image::new, Image::image_view(_mut) | bounds=enumerated: F32x3 -> U8x3, 1x1 zero image; unwind 6
c17_dyn!(c17_dyn_f32x3_u8x3, 11, 2);
// @h c17_dyn_f32x3_u16x4 | prop=C17 | tier=thorough | t=1500 | mem=14 | enc=change_type_of_pixel_components (dynamic dispatch), Image::new, Image::image_view(_mut) | bounds=enumerated: F32x3 -> U16x4, 1x1 zero image; unwind 6
c17_dyn!(c17_dyn_f32x3_u16x4, 11, 7);
// @h c17_dyn_f32x4_u8 | prop=C17 | tier=thorough | t=1500 | mem=14 | enc=change_type_of_pixel_components (dynamic dispatch), Image::new, Image::image_view(_mut) | bounds=enumerated: F32x4 -> U8, 1x1 zero image; unwind 6
c17_dyn!(c17_dyn_f32x4_u8, 12, 0);
// @h c17_dyn_f32x4_u8x4 | prop=C17 | tier=thorough | t=1500 | mem=14 | enc=change_type_of_pixel_components (dynamic dispatch), Image::new, Image::image_view(_mut) | bounds=enumerated: F32x4 -> U8x4, 1x1 zero image; unwind 6
c17_dyn!(c17_dyn_f32x4_u8x4, 12, 3);
// @h c17_dyn_f32x4_f32x4 | prop=C17 | tier=thorough | t=1500 | mem=14 | enc=change_type_of_pixel_components (dynamic dispatch), Image::new, Image::image_view(_mut) | bounds=enumerated: F32x4 -> F32x4, 1x1 zero image; unwind 6
c17_dyn!(c17_dyn_f32x4_f32x4, 12, 12);
