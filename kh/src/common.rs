//! Shared helpers for the harnesses.
use fast_image_resize::pixels::{InnerPixel, U8};
use fast_image_resize::ImageView;

/// An image view of arbitrary (symbolic) dimensions without pixel data.
///
/// `ImageView` is a public trait; constructors of cropped views only call
/// `width()`/`height()`, so this lets the harness quantify over all u32 sizes
/// without allocating `w*h` pixels.  It never yields rows.
pub struct SizeOnlyView {
    pub w: u32,
    pub h: u32,
}

unsafe impl ImageView for SizeOnlyView {
    type Pixel = U8;
    fn width(&self) -> u32 {
        self.w
    }
    fn height(&self) -> u32 {
        self.h
    }
    fn iter_rows(&self, _start_row: u32) -> impl Iterator<Item = &[U8]> {
        core::iter::empty()
    }
}

/// `fast_image_resize::IntoImageView` of arbitrary dimensions without data.
pub struct SizeOnlyImage {
    pub w: u32,
    pub h: u32,
}

impl fast_image_resize::IntoImageView for SizeOnlyImage {
    fn pixel_type(&self) -> Option<fast_image_resize::PixelType> {
        Some(fast_image_resize::PixelType::U8)
    }
    fn width(&self) -> u32 {
        self.w
    }
    fn height(&self) -> u32 {
        self.h
    }
    fn image_view<P: fast_image_resize::PixelTrait>(&self) -> Option<impl ImageView<Pixel = P>> {
        None::<fast_image_resize::images::TypedImageRef<'static, P>>
    }
}

impl fast_image_resize::IntoImageViewMut for SizeOnlyImage {
    fn image_view_mut<P: fast_image_resize::PixelTrait>(
        &mut self,
    ) -> Option<impl fast_image_resize::ImageViewMut<Pixel = P>> {
        None::<fast_image_resize::images::TypedImage<'static, P>>
    }
}

unsafe impl fast_image_resize::ImageViewMut for SizeOnlyView {
    fn iter_rows_mut(&mut self, _start_row: u32) -> impl Iterator<Item = &mut [U8]> {
        core::iter::empty()
    }
}
