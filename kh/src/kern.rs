//! K-level harness building blocks: run the real `Convolution::{horiz,vert}_convolution`
//! of a pixel type (real dispatch, real kernels) with *injected integer coefficients*
//! on an image with symbolic contents, and compare every destination component with
//! the closed-form fixed-point specification
//!
//!     out = clamp((sum_i c[i] * px[start + i] + 2^(p-1)) >> p, 0, max)
//!
//! Sizes, window starts and coefficient values are concrete (enumerated by the
//! generator); pixel contents are symbolic.
use fast_image_resize::images::{TypedImage, TypedImageRef};
use fast_image_resize::pixels::*;
use fast_image_resize::verif_api::{self, InjectedNorm};
use fast_image_resize::{CpuExtensions, PixelTrait};

/// Concrete description of one pass.
pub struct Pass<'a> {
    pub precision: u8,
    /// (start, size) per output sample
    pub bounds: &'a [(u32, u32)],
    /// integer coefficients per output sample (at least `size` of them)
    pub coeffs: &'a [&'a [i32]],
}

impl<'a> Pass<'a> {
    pub fn window_size(&self) -> usize {
        let mut m = 0usize;
        let mut i = 0;
        while i < self.bounds.len() {
            if self.bounds[i].1 as usize > m {
                m = self.bounds[i].1 as usize;
            }
            i += 1;
        }
        m
    }

    pub fn inject(&self) {
        let mut values = Vec::with_capacity(self.coeffs.len());
        let mut i = 0;
        while i < self.coeffs.len() {
            values.push(self.coeffs[i].to_vec());
            i += 1;
        }
        verif_api::inject_norm(InjectedNorm {
            precision: self.precision,
            values,
        });
    }
}

/// Component access for the harness (pixel -> integer components).
pub trait KComp: Copy {
    const MAX: i64;
    fn to_i64(self) -> i64;
}
impl KComp for u8 {
    const MAX: i64 = 255;
    fn to_i64(self) -> i64 {
        self as i64
    }
}
impl KComp for u16 {
    const MAX: i64 = 65535;
    fn to_i64(self) -> i64 {
        self as i64
    }
}

impl KComp for i32 {
    const MAX: i64 = 0;
    fn to_i64(self) -> i64 {
        self as i64
    }
}
/// f32 components are only ever compared bit for bit (copy / nearest paths).
impl KComp for f32 {
    const MAX: i64 = 0;
    fn to_i64(self) -> i64 {
        self.to_bits() as i64
    }
}

/// Reinterpret a component array as pixels (layout: `Pixel<[C; N], C, N>` is `repr(C)` over `[C; N]`).
pub fn as_pixels<P: InnerPixel>(comps: &[P::Component]) -> &[P] {
    let n = comps.len() / P::count_of_components();
    unsafe { core::slice::from_raw_parts(comps.as_ptr() as *const P, n) }
}
pub fn as_pixels_mut<P: InnerPixel>(comps: &mut [P::Component]) -> &mut [P] {
    let n = comps.len() / P::count_of_components();
    unsafe { core::slice::from_raw_parts_mut(comps.as_mut_ptr() as *mut P, n) }
}

/// clamp((acc + 2^(p-1)) >> p, 0, max)
#[inline(always)]
pub fn spec_finish(acc: i64, precision: u8, max: i64) -> i64 {
    let v = (acc + (1i64 << (precision - 1))) >> precision;
    if v < 0 {
        0
    } else if v > max {
        max
    } else {
        v
    }
}

/// Run the real horizontal pass (`src` is `sw x sh`, components row-major; `dst` is `dw x dh`).
pub fn run_horiz<P>(
    cpu: CpuExtensions,
    src: &[P::Component],
    sw: usize,
    sh: usize,
    dst: &mut [P::Component],
    dw: usize,
    dh: usize,
    offset: u32,
    pass: &Pass,
) where
    P: PixelTrait,
{
    let src_img = TypedImageRef::<P>::new(sw as u32, sh as u32, as_pixels::<P>(src)).unwrap();
    let mut dst_img =
        TypedImage::<P>::from_pixels_slice(dw as u32, dh as u32, as_pixels_mut::<P>(dst)).unwrap();
    pass.inject();
    verif_api::horiz_convolution::<P>(&src_img, &mut dst_img, offset, pass.window_size(), pass.bounds, cpu);
}

/// Run the real vertical pass.
pub fn run_vert<P>(
    cpu: CpuExtensions,
    src: &[P::Component],
    sw: usize,
    sh: usize,
    dst: &mut [P::Component],
    dw: usize,
    dh: usize,
    offset: u32,
    pass: &Pass,
) where
    P: PixelTrait,
{
    let src_img = TypedImageRef::<P>::new(sw as u32, sh as u32, as_pixels::<P>(src)).unwrap();
    let mut dst_img =
        TypedImage::<P>::from_pixels_slice(dw as u32, dh as u32, as_pixels_mut::<P>(dst)).unwrap();
    pass.inject();
    verif_api::vert_convolution::<P>(&src_img, &mut dst_img, offset, pass.window_size(), pass.bounds, cpu);
}

/// Horizontal pass: `src` is `sw x sh` (components row-major), `dst` is `dw x dh`;
/// destination row y is computed from source row `offset + y`.
pub fn check_horiz<P>(
    cpu: CpuExtensions,
    src: &[P::Component],
    sw: usize,
    sh: usize,
    dst: &mut [P::Component],
    dw: usize,
    dh: usize,
    offset: u32,
    pass: &Pass,
) where
    P: PixelTrait,
    P::Component: KComp,
{
    let n = P::count_of_components();
    run_horiz::<P>(cpu, src, sw, sh, dst, dw, dh, offset, pass);
    let mut y = 0;
    while y < dh {
        let mut x = 0;
        while x < dw {
            let (start, size) = pass.bounds[x];
            let mut c = 0;
            while c < n {
                let mut acc: i64 = 0;
                let mut i = 0;
                while i < size as usize {
                    let s = src[((offset as usize + y) * sw + start as usize + i) * n + c].to_i64();
                    acc += s * pass.coeffs[x][i] as i64;
                    i += 1;
                }
                let want = spec_finish(acc, pass.precision, <P::Component as KComp>::MAX);
                let got = dst[(y * dw + x) * n + c].to_i64();
                assert!(got == want, "K: horizontal kernel output equals the fixed-point specification");
                c += 1;
            }
            x += 1;
        }
        y += 1;
    }
}

/// Vertical pass: `src` is `sw x sh`, `dst` is `dw x dh`; destination column x is
/// computed from source column `offset + x`.
pub fn check_vert<P>(
    cpu: CpuExtensions,
    src: &[P::Component],
    sw: usize,
    sh: usize,
    dst: &mut [P::Component],
    dw: usize,
    dh: usize,
    offset: u32,
    pass: &Pass,
) where
    P: PixelTrait,
    P::Component: KComp,
{
    let n = P::count_of_components();
    run_vert::<P>(cpu, src, sw, sh, dst, dw, dh, offset, pass);
    let mut y = 0;
    while y < dh {
        let (start, size) = pass.bounds[y];
        let mut x = 0;
        while x < dw {
            let mut c = 0;
            while c < n {
                let mut acc: i64 = 0;
                let mut i = 0;
                while i < size as usize {
                    let s = src[((start as usize + i) * sw + offset as usize + x) * n + c].to_i64();
                    acc += s * pass.coeffs[y][i] as i64;
                    i += 1;
                }
                let want = spec_finish(acc, pass.precision, <P::Component as KComp>::MAX);
                let got = dst[(y * dw + x) * n + c].to_i64();
                assert!(got == want, "K: vertical kernel output equals the fixed-point specification");
                c += 1;
            }
            x += 1;
        }
        y += 1;
    }
}

// ---------------------------------------------------------------------------
// C10: uniform image stays uniform
// ---------------------------------------------------------------------------

pub fn check_uniform<C: KComp>(dst: &[C], v: C) {
    let mut i = 0;
    while i < dst.len() {
        assert!(dst[i].to_i64() == v.to_i64(), "C10: every destination component equals the uniform source value");
        i += 1;
    }
}

// ---------------------------------------------------------------------------
// C18: non-negative filters: output inside [min, max] of the window, monotone
// ---------------------------------------------------------------------------

pub fn check_bounded_horiz<P>(
    src: &[P::Component],
    sw: usize,
    _sh: usize,
    dst: &[P::Component],
    dw: usize,
    dh: usize,
    offset: u32,
    pass: &Pass,
) where
    P: PixelTrait,
    P::Component: KComp,
{
    let n = P::count_of_components();
    let mut y = 0;
    while y < dh {
        let mut x = 0;
        while x < dw {
            let (start, size) = pass.bounds[x];
            let mut c = 0;
            while c < n {
                let mut lo = i64::MAX;
                let mut hi = i64::MIN;
                let mut i = 0;
                while i < size as usize {
                    let s = src[((offset as usize + y) * sw + start as usize + i) * n + c].to_i64();
                    if s < lo {
                        lo = s;
                    }
                    if s > hi {
                        hi = s;
                    }
                    i += 1;
                }
                let got = dst[(y * dw + x) * n + c].to_i64();
                assert!(got >= lo, "C18: output not below the smallest source value of its window");
                assert!(got <= hi, "C18: output not above the largest source value of its window");
                c += 1;
            }
            x += 1;
        }
        y += 1;
    }
}

pub fn check_bounded_vert<P>(
    src: &[P::Component],
    sw: usize,
    _sh: usize,
    dst: &[P::Component],
    dw: usize,
    dh: usize,
    offset: u32,
    pass: &Pass,
) where
    P: PixelTrait,
    P::Component: KComp,
{
    let n = P::count_of_components();
    let mut y = 0;
    while y < dh {
        let (start, size) = pass.bounds[y];
        let mut x = 0;
        while x < dw {
            let mut c = 0;
            while c < n {
                let mut lo = i64::MAX;
                let mut hi = i64::MIN;
                let mut i = 0;
                while i < size as usize {
                    let s = src[((start as usize + i) * sw + offset as usize + x) * n + c].to_i64();
                    if s < lo {
                        lo = s;
                    }
                    if s > hi {
                        hi = s;
                    }
                    i += 1;
                }
                let got = dst[(y * dw + x) * n + c].to_i64();
                assert!(got >= lo, "C18: output not below the smallest source value of its window");
                assert!(got <= hi, "C18: output not above the largest source value of its window");
                c += 1;
            }
            x += 1;
        }
        y += 1;
    }
}

pub fn pointwise_max<C: KComp + PartialOrd, const N: usize>(a: &[C; N], c: &[C; N]) -> [C; N] {
    let mut b = *a;
    let mut i = 0;
    while i < N {
        if c[i] > a[i] {
            b[i] = c[i];
        }
        i += 1;
    }
    b
}

pub fn check_monotone<C: KComp>(da: &[C], db: &[C]) {
    let mut i = 0;
    while i < da.len() {
        assert!(da[i].to_i64() <= db[i].to_i64(), "C18: increasing source values never decreases a destination value");
        i += 1;
    }
}

// ---------------------------------------------------------------------------
// C01: closeness to the independent ideal weights (scaled by 2^24)
// ---------------------------------------------------------------------------

pub const REF_SHIFT: u32 = 24;

pub struct RefWeights<'a> {
    /// first source index of the reference window per output sample
    pub starts: &'a [u32],
    /// reference weights * 2^24, rounded to nearest
    pub weights: &'a [&'a [i32]],
    /// allowed |out * 2^24 - sum W*px| per output sample (already includes the 1/2 unit of the
    /// final rounding, the documented quantisation allowance and the rounding of W itself)
    pub budget: &'a [i64],
}

fn ref_check_one(acc: i64, got: i64, max: i64, budget: i64) {
    // ideal value clamped to the component range, in 2^-24 units
    let one = 1i64 << REF_SHIFT;
    let ideal = if acc < 0 {
        0
    } else if acc > max * one {
        max * one
    } else {
        acc
    };
    let d = got * one - ideal;
    assert!(d <= budget, "C01: output not above the ideal resampling by more than the rounding budget");
    assert!(d >= -budget, "C01: output not below the ideal resampling by more than the rounding budget");
}

pub fn check_ref_horiz<P>(
    src: &[P::Component],
    sw: usize,
    _sh: usize,
    dst: &[P::Component],
    dw: usize,
    dh: usize,
    offset: u32,
    r: &RefWeights,
) where
    P: PixelTrait,
    P::Component: KComp,
{
    let n = P::count_of_components();
    let mut y = 0;
    while y < dh {
        let mut x = 0;
        while x < dw {
            let start = r.starts[x] as usize;
            let mut c = 0;
            while c < n {
                let mut acc: i64 = 0;
                let mut i = 0;
                while i < r.weights[x].len() {
                    let s = src[((offset as usize + y) * sw + start + i) * n + c].to_i64();
                    acc += s * r.weights[x][i] as i64;
                    i += 1;
                }
                ref_check_one(acc, dst[(y * dw + x) * n + c].to_i64(), <P::Component as KComp>::MAX, r.budget[x]);
                c += 1;
            }
            x += 1;
        }
        y += 1;
    }
}

pub fn check_ref_vert<P>(
    src: &[P::Component],
    sw: usize,
    _sh: usize,
    dst: &[P::Component],
    dw: usize,
    dh: usize,
    offset: u32,
    r: &RefWeights,
) where
    P: PixelTrait,
    P::Component: KComp,
{
    let n = P::count_of_components();
    let mut y = 0;
    while y < dh {
        let start = r.starts[y] as usize;
        let mut x = 0;
        while x < dw {
            let mut c = 0;
            while c < n {
                let mut acc: i64 = 0;
                let mut i = 0;
                while i < r.weights[y].len() {
                    let s = src[((start + i) * sw + offset as usize + x) * n + c].to_i64();
                    acc += s * r.weights[y][i] as i64;
                    i += 1;
                }
                ref_check_one(acc, dst[(y * dw + x) * n + c].to_i64(), <P::Component as KComp>::MAX, r.budget[y]);
                c += 1;
            }
            x += 1;
        }
        y += 1;
    }
}

// ---------------------------------------------------------------------------
// C01 (tap level): the real quantised coefficients are the ideal weights rounded to 2^-p
// ---------------------------------------------------------------------------

pub const TAP_SHIFT: u32 = 40;

/// Per output sample: first index and the ideal weights * 2^40 of the union of the ideal and
/// the real window.  `|c[i] * 2^(40-p) - W40[i]| <= 2^(39-p) + 2` for every tap (a tap the
/// real window does not have counts as c = 0): each real coefficient is the ideal weight
/// rounded to the nearest multiple of 2^-p (plus 2 units of 2^-40 for f64 noise in the oracle).
/// Together with "kernel == fixed-point spec of its own coefficients, for all contents" this
/// gives |out - ideal| <= 1/2 + max * n * 2^-(p+1) for all contents (triangle inequality).
pub fn check_taps(pass: &Pass, starts: &[u32], w40: &[&[i64]]) {
    let p = pass.precision as u32;
    let allowed: i64 = (1i64 << (TAP_SHIFT - 1 - p)) + 2;
    let mut x = 0;
    while x < pass.bounds.len() {
        let (rs, rn) = pass.bounds[x];
        let mut i = 0;
        while i < w40[x].len() {
            let idx = starts[x] as i64 + i as i64;
            let k = idx - rs as i64;
            let c: i64 = if k >= 0 && (k as u32) < rn { pass.coeffs[x][k as usize] as i64 } else { 0 };
            let d = (c << (TAP_SHIFT - p)) - w40[x][i];
            assert!(d <= allowed && d >= -allowed, "C01: every real coefficient is the ideal weight rounded to 2^-precision");
            i += 1;
        }
        assert!(rs >= starts[x] && (rs + rn) as usize <= starts[x] as usize + w40[x].len(), "C01: the real window lies inside the listed window");
        x += 1;
    }
}
