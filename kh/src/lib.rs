//! Kani harnesses for fast_image_resize (built with `--cfg fir_verif`).
//!
//! Every `#[kani::proof]` function is one *harness*; it may contain several
//! obligations (assertions) and always ends with `kani::cover!` witnesses that
//! the driver requires to be SATISFIED (vacuity guard).
//!
//! The same functions are replayed natively through `cargo kani playback`
//! (Kani's concrete playback turns a counterexample into a `#[test]`).
#![allow(clippy::all)]
#![allow(unused)]
#![recursion_limit = "2048"]

pub mod common;

#[cfg(kani)]
pub mod x86_model;

#[cfg(all(kani, feature = "prop_c04"))]
pub mod c04;

#[cfg(all(kani, feature = "prop_c17"))]
pub mod c17;

#[cfg(kani)]
mod playback;
