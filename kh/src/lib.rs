//! Kani harnesses for fast_image_resize (built with `--cfg fir_verif`).
//!
//! Every `#[kani::proof]` function is one *harness*; it may contain several
//! obligations (assertions) and always ends with `kani::cover!` witnesses that
//! the driver requires to be SATISFIED (vacuity guard).
//!
//! The same functions are replayed natively through `cargo kani playback`
//! (Kani's concrete playback turns a counterexample into a `#[test]`).
#![allow(clippy::all)]
#![allow(unused)]
#![recursion_limit = "16384"]

pub mod common;
#[cfg(kani)]
pub mod kern;
#[cfg(kani)]
pub mod pipe;

#[cfg(any(kani, feature = "selftest"))]
pub mod x86_model;
#[macro_use]
pub mod x86_glue;

#[cfg(all(kani, feature = "prop_c04"))]
pub mod c04;

#[cfg(all(kani, feature = "prop_c02"))]
pub mod gen_c02;
#[cfg(all(kani, feature = "prop_c01"))]
pub mod gen_c01;
#[cfg(all(kani, feature = "prop_c05"))]
pub mod gen_c05;
#[cfg(all(kani, feature = "prop_c03"))]
pub mod gen_c03;
#[cfg(all(kani, feature = "prop_c11"))]
pub mod gen_c11;
#[cfg(all(kani, feature = "prop_c12"))]
pub mod gen_c12;
#[cfg(all(kani, feature = "prop_c13"))]
pub mod gen_c13;
#[cfg(all(kani, feature = "prop_c07"))]
pub mod gen_c07;
#[cfg(all(kani, feature = "prop_c09"))]
pub mod gen_c09;
#[cfg(all(kani, feature = "prop_c06"))]
#[macro_use]
pub mod c06;
#[cfg(all(kani, feature = "prop_c06"))]
pub mod gen_c06;
#[cfg(all(kani, feature = "prop_c10"))]
pub mod gen_c10;
#[cfg(all(kani, feature = "prop_c18"))]
pub mod gen_c18;

#[cfg(all(kani, feature = "prop_c14"))]
pub mod c14;
#[cfg(all(kani, feature = "prop_c15"))]
pub mod c15;
#[cfg(all(kani, feature = "prop_c08"))]
pub mod c08;
#[cfg(all(kani, feature = "prop_c17"))]
pub mod c17;

#[cfg(all(kani, feature = "probe"))]
pub mod probe;

#[cfg(kani)]
mod playback;
