//! P-level (pipeline) harness building blocks: `Resizer::resize_typed` on tiny images with
//! symbolic contents.  The float prefix of the two passes (weights, quantisation) is injected
//! as constants obtained from the real code natively; everything else (crop validation,
//! copy fast path, pass selection and order, temp image, bound shifting, dispatch, kernels)
//! is the real code.
use crate::kern::*;
use fast_image_resize::pixels::*;
use fast_image_resize::verif_api::{self, InjectedNorm};
use fast_image_resize::{CpuExtensions, PixelTrait, Resizer};

/// What the float stage produced for this geometry (None = that pass is not needed).
pub struct Pipe<'a> {
    /// (source extent, destination extent) each pass's windows were computed for
    pub h_geom: (u32, u32),
    pub v_geom: (u32, u32),
    pub h: Option<Pass<'a>>,
    pub v: Option<Pass<'a>>,
    /// `Coefficients::window_size` of each pass
    pub h_ws: usize,
    pub v_ws: usize,
}

impl<'a> Pipe<'a> {
    /// Queue the coefficient bounds in the order `do_convolution` asks for them (horizontal,
    /// then vertical) and the integer coefficients in the order the passes run.
    pub fn inject<P: PixelTrait>(&self) {
        verif_api::clear_injected();
        // any pass beyond the injected ones is an unexpected resampling pass
        verif_api::set_strict(true);
        if let Some(h) = &self.h {
            verif_api::inject_coefficients_for(self.h_geom.0, self.h_geom.1, self.h_ws, h.bounds);
        }
        if let Some(v) = &self.v {
            verif_api::inject_coefficients_for(self.v_geom.0, self.v_geom.1, self.v_ws, v.bounds);
        }
        let v_first = P::components_is_u8();
        if v_first {
            if let Some(v) = &self.v {
                v.inject();
            }
            if let Some(h) = &self.h {
                h.inject();
            }
        } else {
            if let Some(h) = &self.h {
                h.inject();
            }
            if let Some(v) = &self.v {
                v.inject();
            }
        }
    }
}

pub fn new_resizer(cpu: CpuExtensions) -> Resizer {
    Resizer::verif_with_state(cpu, Vec::new(), Vec::new(), Vec::new())
}

/// A `Resizer` whose three scratch buffers already have arbitrary (symbolic) content of the
/// given lengths: any history of earlier calls, `clone()` or `reset_internal_buffers()` leaves
/// the resizer in some such state.  Pre-sized buffers also keep `Vec::resize` (a byte loop)
/// out of the harness.
pub fn resizer_with_scratch<const A: usize, const B: usize, const S: usize>(cpu: CpuExtensions) -> Resizer {
    let a: Box<[u8; A]> = Box::new(kani::any());
    let b: Box<[u8; B]> = Box::new(kani::any());
    let s: Box<[u8; S]> = Box::new(kani::any());
    let a: Box<[u8]> = a;
    let b: Box<[u8]> = b;
    let s: Box<[u8]> = s;
    Resizer::verif_with_state(cpu, a.into_vec(), b.into_vec(), s.into_vec())
}

#[inline(always)]
fn h_at<C: KComp>(src: &[C], sw: usize, n: usize, y: usize, c: usize, pass: &Pass, x: usize) -> i64 {
    let (start, size) = pass.bounds[x];
    let mut acc: i64 = 0;
    let mut i = 0;
    while i < size as usize {
        acc += src[(y * sw + start as usize + i) * n + c].to_i64() * pass.coeffs[x][i] as i64;
        i += 1;
    }
    spec_finish(acc, pass.precision, C::MAX)
}

#[inline(always)]
fn v_at<C: KComp>(src: &[C], sw: usize, n: usize, x: usize, c: usize, pass: &Pass, y: usize) -> i64 {
    let (start, size) = pass.bounds[y];
    let mut acc: i64 = 0;
    let mut i = 0;
    while i < size as usize {
        acc += src[((start as usize + i) * sw + x) * n + c].to_i64() * pass.coeffs[y][i] as i64;
        i += 1;
    }
    spec_finish(acc, pass.precision, C::MAX)
}

/// Intermediate values of the specification (component values again, after clamping).
#[derive(Clone, Copy)]
pub struct W(pub i64);

#[inline(always)]
fn h_at_w(src: &[W], sw: usize, n: usize, y: usize, c: usize, pass: &Pass, x: usize, max: i64) -> i64 {
    let (start, size) = pass.bounds[x];
    let mut acc: i64 = 0;
    let mut i = 0;
    while i < size as usize {
        acc += src[(y * sw + start as usize + i) * n + c].0 * pass.coeffs[x][i] as i64;
        i += 1;
    }
    spec_finish(acc, pass.precision, max)
}

#[inline(always)]
fn v_at_w(src: &[W], sw: usize, n: usize, x: usize, c: usize, pass: &Pass, y: usize, max: i64) -> i64 {
    let (start, size) = pass.bounds[y];
    let mut acc: i64 = 0;
    let mut i = 0;
    while i < size as usize {
        acc += src[((start as usize + i) * sw + x) * n + c].0 * pass.coeffs[y][i] as i64;
        i += 1;
    }
    spec_finish(acc, pass.precision, max)
}

/// Closed-form result of the convolution pipeline on a `sw x sh` source with `n` components
/// per pixel; (left, top) is the integer crop origin used when a pass is absent.
/// `v_first` selects the pass order (both orders are legitimate implementations; the crate
/// documents vertical-first for 8-bit types).  `out` receives `dw * dh * n` values, `tmp` is
/// scratch of at least `max(sw * dh, dw * sh) * n` values.
pub fn spec_pipeline<C: KComp>(
    src: &[C],
    sw: usize,
    sh: usize,
    n: usize,
    dw: usize,
    dh: usize,
    left: usize,
    top: usize,
    pipe: &Pipe,
    v_first: bool,
    out: &mut [i64],
    tmp: &mut [W],
) {
    let max = C::MAX;
    match (&pipe.h, &pipe.v) {
        (Some(h), Some(v)) => {
            if v_first {
                let mut y = 0;
                while y < dh {
                    let mut x = 0;
                    while x < sw {
                        let mut c = 0;
                        while c < n {
                            tmp[(y * sw + x) * n + c] = W(v_at(src, sw, n, x, c, v, y));
                            c += 1;
                        }
                        x += 1;
                    }
                    y += 1;
                }
                let mut y = 0;
                while y < dh {
                    let mut x = 0;
                    while x < dw {
                        let mut c = 0;
                        while c < n {
                            out[(y * dw + x) * n + c] = h_at_w(tmp, sw, n, y, c, h, x, max);
                            c += 1;
                        }
                        x += 1;
                    }
                    y += 1;
                }
            } else {
                let mut y = 0;
                while y < sh {
                    let mut x = 0;
                    while x < dw {
                        let mut c = 0;
                        while c < n {
                            tmp[(y * dw + x) * n + c] = W(h_at(src, sw, n, y, c, h, x));
                            c += 1;
                        }
                        x += 1;
                    }
                    y += 1;
                }
                let mut y = 0;
                while y < dh {
                    let mut x = 0;
                    while x < dw {
                        let mut c = 0;
                        while c < n {
                            out[(y * dw + x) * n + c] = v_at_w(tmp, dw, n, x, c, v, y, max);
                            c += 1;
                        }
                        x += 1;
                    }
                    y += 1;
                }
            }
        }
        (Some(h), None) => {
            let mut y = 0;
            while y < dh {
                let mut x = 0;
                while x < dw {
                    let mut c = 0;
                    while c < n {
                        out[(y * dw + x) * n + c] = h_at(src, sw, n, top + y, c, h, x);
                        c += 1;
                    }
                    x += 1;
                }
                y += 1;
            }
        }
        (None, Some(v)) => {
            let mut y = 0;
            while y < dh {
                let mut x = 0;
                while x < dw {
                    let mut c = 0;
                    while c < n {
                        out[(y * dw + x) * n + c] = v_at(src, sw, n, left + x, c, v, y);
                        c += 1;
                    }
                    x += 1;
                }
                y += 1;
            }
        }
        (None, None) => {
            let mut y = 0;
            while y < dh {
                let mut x = 0;
                while x < dw {
                    let mut c = 0;
                    while c < n {
                        out[(y * dw + x) * n + c] = src[((top + y) * sw + left + x) * n + c].to_i64();
                        c += 1;
                    }
                    x += 1;
                }
                y += 1;
            }
        }
    }
}

/// Compare the destination rectangle (`dw x dh` at (dl, dt) inside a `pw x ph` parent buffer,
/// possibly followed by spare components) with the expected values; everything outside the
/// rectangle must equal `old`.
pub fn check_rect_and_outside<C: KComp>(
    buf: &[C],
    old: &[C],
    n: usize,
    pw: usize,
    ph: usize,
    dl: usize,
    dt: usize,
    dw: usize,
    dh: usize,
    expect_a: &[i64],
    expect_b: &[i64],
) {
    let mut y = 0;
    while y < ph {
        let mut x = 0;
        while x < pw {
            let inside = x >= dl && x < dl + dw && y >= dt && y < dt + dh;
            let mut c = 0;
            while c < n {
                let p = (y * pw + x) * n + c;
                let got = buf[p].to_i64();
                if inside {
                    let k = ((y - dt) * dw + (x - dl)) * n + c;
                    assert!(
                        got == expect_a[k] || got == expect_b[k],
                        "P: destination pixel equals the result of the resize (nothing stale, nothing wrong)"
                    );
                } else {
                    assert!(got == old[p].to_i64(), "P: bytes outside the destination rectangle are unchanged");
                }
                c += 1;
            }
            x += 1;
        }
        y += 1;
    }
    // spare capacity after the last row
    let mut p = pw * ph * n;
    while p < buf.len() {
        assert!(buf[p].to_i64() == old[p].to_i64(), "P: spare capacity after the image is unchanged");
        p += 1;
    }
}

pub fn check_unchanged<C: KComp>(buf: &[C], old: &[C]) {
    let mut i = 0;
    while i < buf.len() {
        assert!(buf[i].to_i64() == old[i].to_i64(), "P: destination untouched");
        i += 1;
    }
}

/// Like `resizer_with_scratch`, but the intermediate-pass buffer has `CUT` bytes less *length*
/// than capacity (a `Vec` that was grown by doubling and is shorter than its allocation).
pub fn resizer_with_short_conv<const A: usize, const B: usize, const CUT: usize>(cpu: CpuExtensions) -> Resizer {
    let a: Box<[u8; A]> = Box::new(kani::any());
    let b: Box<[u8; B]> = Box::new(kani::any());
    let a: Box<[u8]> = a;
    let b: Box<[u8]> = b;
    let mut bv = b.into_vec();
    bv.truncate(B - CUT);
    Resizer::verif_with_state(cpu, a.into_vec(), bv, Vec::new())
}

/// Copy the `w x h` region at (l, t) of a `pw`-wide parent (n components per pixel).
pub fn extract_region<C: Copy, const M: usize, const K: usize>(parent: &[C; M], n: usize, pw: usize, l: usize, t: usize, w: usize, h: usize) -> [C; K] {
    let mut out = [parent[0]; K];
    let mut y = 0;
    while y < h {
        let mut x = 0;
        while x < w {
            let mut c = 0;
            while c < n {
                out[(y * w + x) * n + c] = parent[((t + y) * pw + l + x) * n + c];
                c += 1;
            }
            x += 1;
        }
        y += 1;
    }
    out
}

/// Nearest neighbour: destination pixel (x, y) is a bit-exact copy of source pixel (ix[x], iy[y])
/// (or of the alternative index where the ideal coordinate is within 2^-40 of an integer).
pub fn check_nearest<C: KComp>(
    buf: &[C],
    old: &[C],
    n: usize,
    pw: usize,
    ph: usize,
    dl: usize,
    dt: usize,
    dw: usize,
    dh: usize,
    src: &[C],
    sw: usize,
    sh: usize,
    ix: &[usize],
    ixa: &[usize],
    iy: &[usize],
    iya: &[usize],
) {
    let mut y = 0;
    while y < ph {
        let mut x = 0;
        while x < pw {
            let inside = x >= dl && x < dl + dw && y >= dt && y < dt + dh;
            if inside {
                let (dx, dy) = (x - dl, y - dt);
                assert!(ix[dx] < sw && iy[dy] < sh, "C11: the ideal source index lies inside the source");
                let mut m = [true; 4];
                let mut c = 0;
                while c < n {
                    let got = buf[(y * pw + x) * n + c].to_i64();
                    m[0] &= got == src[(iy[dy] * sw + ix[dx]) * n + c].to_i64();
                    m[1] &= got == src[(iy[dy] * sw + ixa[dx]) * n + c].to_i64();
                    m[2] &= got == src[(iya[dy] * sw + ix[dx]) * n + c].to_i64();
                    m[3] &= got == src[(iya[dy] * sw + ixa[dx]) * n + c].to_i64();
                    c += 1;
                }
                assert!(
                    m[0] || m[1] || m[2] || m[3],
                    "C11: destination pixel is a bit-exact copy of the source pixel under its centre"
                );
            } else {
                let mut c = 0;
                while c < n {
                    let p = (y * pw + x) * n + c;
                    assert!(buf[p].to_i64() == old[p].to_i64(), "P: bytes outside the destination rectangle are unchanged");
                    c += 1;
                }
            }
            x += 1;
        }
        y += 1;
    }
    let mut p = pw * ph * n;
    while p < buf.len() {
        assert!(buf[p].to_i64() == old[p].to_i64(), "P: spare capacity after the image is unchanged");
        p += 1;
    }
}

/// `resize_typed` from a contiguous typed source into a contiguous typed destination.
pub fn run_resize<P: PixelTrait>(
    rz: &mut Resizer,
    src: &[P::Component],
    sw: usize,
    sh: usize,
    dst: &mut [P::Component],
    dw: usize,
    dh: usize,
    opts: &fast_image_resize::ResizeOptions,
) -> bool {
    use fast_image_resize::images::{TypedImage, TypedImageRef};
    let src_img = TypedImageRef::<P>::new(sw as u32, sh as u32, as_pixels::<P>(src)).unwrap();
    let mut dst_img = TypedImage::<P>::from_pixels_slice(dw as u32, dh as u32, as_pixels_mut::<P>(dst)).unwrap();
    rz.resize_typed(&src_img, &mut dst_img, opts).is_ok()
}

/// `b` = `a`, except that the colour components of every pixel whose alpha is zero are taken from `c`.
pub fn hide_under_zero_alpha<C: KComp, const M: usize>(a: &[C; M], c: &[C; M], n: usize) -> [C; M] {
    let mut b = *a;
    let mut p = 0;
    while p < M / n {
        if a[p * n + n - 1].to_i64() == 0 {
            let mut k = 0;
            while k < n - 1 {
                b[p * n + k] = c[p * n + k];
                k += 1;
            }
        }
        p += 1;
    }
    b
}

pub fn check_same<C: KComp>(x: &[C], y: &[C], _msg: &str) {
    let mut i = 0;
    while i < x.len() {
        assert!(x[i].to_i64() == y[i].to_i64(), "P: the two runs give identical destination components");
        i += 1;
    }
}
