// generated: concrete playback tests are written here by the driver
