//! x86 intrinsic models (stubs)
