//! Loop-free scalar models of the x86 intrinsics that Kani 0.68 cannot execute as
//! shipped (LLVM-specific intrinsics, `simd_cast`, `simd_select`, and `simd_add/mul`
//! which raise a spurious overflow check).  All other intrinsics the crate uses run
//! unmodified under Kani (probe: tools/gen_probe.py).
//!
//! Written from the pseudo-code in Intel's Intrinsics Guide on plain arrays.
//! They are NOT trusted blindly: `chk.py --setup` / `selftest.py` runs every model
//! against the real instruction on this CPU (random + corner vectors).
//!
//! Naming convention (used by tools/gen_x86_glue.py): the model of `_mm_foo` is
//! `mm_foo`, of `_mm256_foo` is `mm256_foo`, with the same signature.
#![allow(non_snake_case)]
use core::arch::x86_64::*;
use core::mem::transmute as tm;

macro_rules! lanes {
    (2, $f:expr) => {{ let f = $f; [f(0), f(1)] }};
    (4, $f:expr) => {{ let f = $f; [f(0), f(1), f(2), f(3)] }};
    (8, $f:expr) => {{ let f = $f; [f(0), f(1), f(2), f(3), f(4), f(5), f(6), f(7)] }};
    (16, $f:expr) => {{
        let f = $f;
        [
            f(0), f(1), f(2), f(3), f(4), f(5), f(6), f(7), f(8), f(9), f(10), f(11), f(12), f(13),
            f(14), f(15),
        ]
    }};
    (32, $f:expr) => {{
        let f = $f;
        [
            f(0), f(1), f(2), f(3), f(4), f(5), f(6), f(7), f(8), f(9), f(10), f(11), f(12), f(13),
            f(14), f(15), f(16), f(17), f(18), f(19), f(20), f(21), f(22), f(23), f(24), f(25), f(26),
            f(27), f(28), f(29), f(30), f(31),
        ]
    }};
}

#[inline(always)]
fn sat_i16(v: i32) -> i16 {
    if v > i16::MAX as i32 {
        i16::MAX
    } else if v < i16::MIN as i32 {
        i16::MIN
    } else {
        v as i16
    }
}
#[inline(always)]
fn sat_u8(v: i16) -> u8 {
    if v > 255 {
        255
    } else if v < 0 {
        0
    } else {
        v as u8
    }
}
#[inline(always)]
fn sat_u16(v: i32) -> u16 {
    if v > 65535 {
        65535
    } else if v < 0 {
        0
    } else {
        v as u16
    }
}
#[inline(always)]
fn mulhrs(a: i16, b: i16) -> i16 {
    ((((a as i32) * (b as i32)) >> 14).wrapping_add(1) >> 1) as i16
}
/// cvtps2dq with the default MXCSR rounding mode (round to nearest, ties to even);
/// NaN and out-of-range give the "integer indefinite" value 0x8000_0000.
#[inline(always)]
fn cvt_f32_i32(x: f32) -> i32 {
    if x.is_nan() || x >= 2147483648.0 || x < -2147483648.0 {
        return i32::MIN;
    }
    let f = x.floor();
    let d = x - f;
    let fi = f as i32;
    if d < 0.5 {
        fi
    } else if d > 0.5 {
        fi.wrapping_add(1)
    } else if fi & 1 == 0 {
        fi
    } else {
        fi.wrapping_add(1)
    }
}

// --------------------------------------------------------------------------- 128-bit integer

pub fn mm_add_epi16(a: __m128i, b: __m128i) -> __m128i {
    let (a, b): ([i16; 8], [i16; 8]) = unsafe { (tm(a), tm(b)) };
    unsafe { tm(lanes!(8, |i: usize| a[i].wrapping_add(b[i]))) }
}
pub fn mm_add_epi32(a: __m128i, b: __m128i) -> __m128i {
    let (a, b): ([i32; 4], [i32; 4]) = unsafe { (tm(a), tm(b)) };
    unsafe { tm(lanes!(4, |i: usize| a[i].wrapping_add(b[i]))) }
}
pub fn mm_add_epi64(a: __m128i, b: __m128i) -> __m128i {
    let (a, b): ([i64; 2], [i64; 2]) = unsafe { (tm(a), tm(b)) };
    unsafe { tm(lanes!(2, |i: usize| a[i].wrapping_add(b[i]))) }
}
pub fn mm_mullo_epi16(a: __m128i, b: __m128i) -> __m128i {
    let (a, b): ([i16; 8], [i16; 8]) = unsafe { (tm(a), tm(b)) };
    unsafe { tm(lanes!(8, |i: usize| a[i].wrapping_mul(b[i]))) }
}
pub fn mm_mullo_epi32(a: __m128i, b: __m128i) -> __m128i {
    let (a, b): ([i32; 4], [i32; 4]) = unsafe { (tm(a), tm(b)) };
    unsafe { tm(lanes!(4, |i: usize| a[i].wrapping_mul(b[i]))) }
}
pub fn mm_mulhrs_epi16(a: __m128i, b: __m128i) -> __m128i {
    let (a, b): ([i16; 8], [i16; 8]) = unsafe { (tm(a), tm(b)) };
    unsafe { tm(lanes!(8, |i: usize| mulhrs(a[i], b[i]))) }
}
pub fn mm_mul_epi32(a: __m128i, b: __m128i) -> __m128i {
    let (a, b): ([i32; 4], [i32; 4]) = unsafe { (tm(a), tm(b)) };
    unsafe { tm(lanes!(2, |i: usize| (a[2 * i] as i64) * (b[2 * i] as i64))) }
}
pub fn mm_madd_epi16(a: __m128i, b: __m128i) -> __m128i {
    let (a, b): ([i16; 8], [i16; 8]) = unsafe { (tm(a), tm(b)) };
    unsafe {
        tm(lanes!(4, |i: usize| ((a[2 * i] as i32) * (b[2 * i] as i32))
            .wrapping_add((a[2 * i + 1] as i32) * (b[2 * i + 1] as i32))))
    }
}
pub fn mm_min_epu16(a: __m128i, b: __m128i) -> __m128i {
    let (a, b): ([u16; 8], [u16; 8]) = unsafe { (tm(a), tm(b)) };
    unsafe { tm(lanes!(8, |i: usize| if a[i] < b[i] { a[i] } else { b[i] })) }
}
pub fn mm_shuffle_epi8(a: __m128i, b: __m128i) -> __m128i {
    let (a, b): ([u8; 16], [u8; 16]) = unsafe { (tm(a), tm(b)) };
    unsafe {
        tm(lanes!(16, |i: usize| if b[i] & 0x80 != 0 {
            0u8
        } else {
            a[(b[i] & 0x0f) as usize]
        }))
    }
}
pub fn mm_blendv_epi8(a: __m128i, b: __m128i, mask: __m128i) -> __m128i {
    let (a, b, m): ([u8; 16], [u8; 16], [u8; 16]) = unsafe { (tm(a), tm(b), tm(mask)) };
    unsafe { tm(lanes!(16, |i: usize| if m[i] & 0x80 != 0 { b[i] } else { a[i] })) }
}
pub fn mm_packs_epi32(a: __m128i, b: __m128i) -> __m128i {
    let (a, b): ([i32; 4], [i32; 4]) = unsafe { (tm(a), tm(b)) };
    unsafe {
        tm(lanes!(8, |i: usize| if i < 4 {
            sat_i16(a[i])
        } else {
            sat_i16(b[i - 4])
        }))
    }
}
pub fn mm_packus_epi32(a: __m128i, b: __m128i) -> __m128i {
    let (a, b): ([i32; 4], [i32; 4]) = unsafe { (tm(a), tm(b)) };
    unsafe {
        tm(lanes!(8, |i: usize| if i < 4 {
            sat_u16(a[i])
        } else {
            sat_u16(b[i - 4])
        }))
    }
}
pub fn mm_packus_epi16(a: __m128i, b: __m128i) -> __m128i {
    let (a, b): ([i16; 8], [i16; 8]) = unsafe { (tm(a), tm(b)) };
    unsafe {
        tm(lanes!(16, |i: usize| if i < 8 {
            sat_u8(a[i])
        } else {
            sat_u8(b[i - 8])
        }))
    }
}
pub fn mm_cvtepu8_epi32(a: __m128i) -> __m128i {
    let a: [u8; 16] = unsafe { tm(a) };
    unsafe { tm(lanes!(4, |i: usize| a[i] as i32)) }
}
pub fn mm_cvtepu8_epi16(a: __m128i) -> __m128i {
    let a: [u8; 16] = unsafe { tm(a) };
    unsafe { tm(lanes!(8, |i: usize| a[i] as i16)) }
}

// --------------------------------------------------------------------------- 128-bit float

pub fn mm_cvtepi32_ps(a: __m128i) -> __m128 {
    let a: [i32; 4] = unsafe { tm(a) };
    unsafe { tm(lanes!(4, |i: usize| a[i] as f32)) }
}
pub fn mm_cvtps_epi32(a: __m128) -> __m128i {
    let a: [f32; 4] = unsafe { tm(a) };
    unsafe { tm(lanes!(4, |i: usize| cvt_f32_i32(a[i]))) }
}
pub fn mm_cvtps_pd(a: __m128) -> __m128d {
    let a: [f32; 4] = unsafe { tm(a) };
    unsafe { tm(lanes!(2, |i: usize| a[i] as f64)) }
}
pub fn mm_cmpneq_ps(a: __m128, b: __m128) -> __m128 {
    let (a, b): ([f32; 4], [f32; 4]) = unsafe { (tm(a), tm(b)) };
    unsafe { tm(lanes!(4, |i: usize| if a[i] != b[i] { u32::MAX } else { 0u32 })) }
}

// --------------------------------------------------------------------------- 256-bit integer

pub fn mm256_add_epi16(a: __m256i, b: __m256i) -> __m256i {
    let (a, b): ([i16; 16], [i16; 16]) = unsafe { (tm(a), tm(b)) };
    unsafe { tm(lanes!(16, |i: usize| a[i].wrapping_add(b[i]))) }
}
pub fn mm256_add_epi32(a: __m256i, b: __m256i) -> __m256i {
    let (a, b): ([i32; 8], [i32; 8]) = unsafe { (tm(a), tm(b)) };
    unsafe { tm(lanes!(8, |i: usize| a[i].wrapping_add(b[i]))) }
}
pub fn mm256_add_epi64(a: __m256i, b: __m256i) -> __m256i {
    let (a, b): ([i64; 4], [i64; 4]) = unsafe { (tm(a), tm(b)) };
    unsafe { tm(lanes!(4, |i: usize| a[i].wrapping_add(b[i]))) }
}
pub fn mm256_mullo_epi16(a: __m256i, b: __m256i) -> __m256i {
    let (a, b): ([i16; 16], [i16; 16]) = unsafe { (tm(a), tm(b)) };
    unsafe { tm(lanes!(16, |i: usize| a[i].wrapping_mul(b[i]))) }
}
pub fn mm256_mullo_epi32(a: __m256i, b: __m256i) -> __m256i {
    let (a, b): ([i32; 8], [i32; 8]) = unsafe { (tm(a), tm(b)) };
    unsafe { tm(lanes!(8, |i: usize| a[i].wrapping_mul(b[i]))) }
}
pub fn mm256_mulhrs_epi16(a: __m256i, b: __m256i) -> __m256i {
    let (a, b): ([i16; 16], [i16; 16]) = unsafe { (tm(a), tm(b)) };
    unsafe { tm(lanes!(16, |i: usize| mulhrs(a[i], b[i]))) }
}
pub fn mm256_mul_epi32(a: __m256i, b: __m256i) -> __m256i {
    let (a, b): ([i32; 8], [i32; 8]) = unsafe { (tm(a), tm(b)) };
    unsafe { tm(lanes!(4, |i: usize| (a[2 * i] as i64) * (b[2 * i] as i64))) }
}
pub fn mm256_madd_epi16(a: __m256i, b: __m256i) -> __m256i {
    let (a, b): ([i16; 16], [i16; 16]) = unsafe { (tm(a), tm(b)) };
    unsafe {
        tm(lanes!(8, |i: usize| ((a[2 * i] as i32) * (b[2 * i] as i32))
            .wrapping_add((a[2 * i + 1] as i32) * (b[2 * i + 1] as i32))))
    }
}
pub fn mm256_min_epu16(a: __m256i, b: __m256i) -> __m256i {
    let (a, b): ([u16; 16], [u16; 16]) = unsafe { (tm(a), tm(b)) };
    unsafe { tm(lanes!(16, |i: usize| if a[i] < b[i] { a[i] } else { b[i] })) }
}
pub fn mm256_shuffle_epi8(a: __m256i, b: __m256i) -> __m256i {
    let (a, b): ([u8; 32], [u8; 32]) = unsafe { (tm(a), tm(b)) };
    unsafe {
        tm(lanes!(32, |i: usize| if b[i] & 0x80 != 0 {
            0u8
        } else {
            a[(i & 16) + (b[i] & 0x0f) as usize]
        }))
    }
}
pub fn mm256_blendv_epi8(a: __m256i, b: __m256i, mask: __m256i) -> __m256i {
    let (a, b, m): ([u8; 32], [u8; 32], [u8; 32]) = unsafe { (tm(a), tm(b), tm(mask)) };
    unsafe { tm(lanes!(32, |i: usize| if m[i] & 0x80 != 0 { b[i] } else { a[i] })) }
}
pub fn mm256_packs_epi32(a: __m256i, b: __m256i) -> __m256i {
    let (a, b): ([i32; 8], [i32; 8]) = unsafe { (tm(a), tm(b)) };
    // per 128-bit lane: [a.lo4, b.lo4 | a.hi4, b.hi4]
    unsafe {
        tm(lanes!(16, |i: usize| {
            let lane = i / 8;
            let j = i % 8;
            if j < 4 {
                sat_i16(a[lane * 4 + j])
            } else {
                sat_i16(b[lane * 4 + j - 4])
            }
        }))
    }
}
pub fn mm256_packus_epi32(a: __m256i, b: __m256i) -> __m256i {
    let (a, b): ([i32; 8], [i32; 8]) = unsafe { (tm(a), tm(b)) };
    unsafe {
        tm(lanes!(16, |i: usize| {
            let lane = i / 8;
            let j = i % 8;
            if j < 4 {
                sat_u16(a[lane * 4 + j])
            } else {
                sat_u16(b[lane * 4 + j - 4])
            }
        }))
    }
}
pub fn mm256_packus_epi16(a: __m256i, b: __m256i) -> __m256i {
    let (a, b): ([i16; 16], [i16; 16]) = unsafe { (tm(a), tm(b)) };
    unsafe {
        tm(lanes!(32, |i: usize| {
            let lane = i / 16;
            let j = i % 16;
            if j < 8 {
                sat_u8(a[lane * 8 + j])
            } else {
                sat_u8(b[lane * 8 + j - 8])
            }
        }))
    }
}
pub fn mm256_cvtepu8_epi16(a: __m128i) -> __m256i {
    let a: [u8; 16] = unsafe { tm(a) };
    unsafe { tm(lanes!(16, |i: usize| a[i] as i16)) }
}

// --------------------------------------------------------------------------- 256-bit float

pub fn mm256_cvtepi32_ps(a: __m256i) -> __m256 {
    let a: [i32; 8] = unsafe { tm(a) };
    unsafe { tm(lanes!(8, |i: usize| a[i] as f32)) }
}
pub fn mm256_cvtps_epi32(a: __m256) -> __m256i {
    let a: [f32; 8] = unsafe { tm(a) };
    unsafe { tm(lanes!(8, |i: usize| cvt_f32_i32(a[i]))) }
}
pub fn mm256_cvtps_pd(a: __m128) -> __m256d {
    let a: [f32; 4] = unsafe { tm(a) };
    unsafe { tm(lanes!(4, |i: usize| a[i] as f64)) }
}
pub fn mm256_cvtpd_ps(a: __m256d) -> __m128 {
    let a: [f64; 4] = unsafe { tm(a) };
    unsafe { tm(lanes!(4, |i: usize| a[i] as f32)) }
}
/// Only the predicate the crate uses is modelled: _CMP_NEQ_UQ (4).
pub fn mm256_cmp_ps<const IMM5: i32>(a: __m256, b: __m256) -> __m256 {
    assert!(IMM5 == 4, "x86_model: only _CMP_NEQ_UQ is modelled");
    let (a, b): ([f32; 8], [f32; 8]) = unsafe { (tm(a), tm(b)) };
    unsafe { tm(lanes!(8, |i: usize| if a[i] != b[i] { u32::MAX } else { 0u32 })) }
}

// --------------------------------------------------------------------------- widening conversions
// Not used by the pinned tree, but the obvious candidates of a "small optimisation" of a kernel
// (a seeded change used _mm_cvtepi16_epi64): modelled so that such a change is decided instead of
// ending as "unsupported construct".

pub fn mm_cvtepi8_epi16(a: __m128i) -> __m128i {
    let a: [i8; 16] = unsafe { tm(a) };
    unsafe { tm(lanes!(8, |i: usize| a[i] as i16)) }
}
pub fn mm_cvtepi8_epi32(a: __m128i) -> __m128i {
    let a: [i8; 16] = unsafe { tm(a) };
    unsafe { tm(lanes!(4, |i: usize| a[i] as i32)) }
}
pub fn mm_cvtepi8_epi64(a: __m128i) -> __m128i {
    let a: [i8; 16] = unsafe { tm(a) };
    unsafe { tm(lanes!(2, |i: usize| a[i] as i64)) }
}
pub fn mm_cvtepi16_epi32(a: __m128i) -> __m128i {
    let a: [i16; 8] = unsafe { tm(a) };
    unsafe { tm(lanes!(4, |i: usize| a[i] as i32)) }
}
pub fn mm_cvtepi16_epi64(a: __m128i) -> __m128i {
    let a: [i16; 8] = unsafe { tm(a) };
    unsafe { tm(lanes!(2, |i: usize| a[i] as i64)) }
}
pub fn mm_cvtepi32_epi64(a: __m128i) -> __m128i {
    let a: [i32; 4] = unsafe { tm(a) };
    unsafe { tm(lanes!(2, |i: usize| a[i] as i64)) }
}
pub fn mm_cvtepu8_epi64(a: __m128i) -> __m128i {
    let a: [u8; 16] = unsafe { tm(a) };
    unsafe { tm(lanes!(2, |i: usize| a[i] as i64)) }
}
pub fn mm_cvtepu16_epi32(a: __m128i) -> __m128i {
    let a: [u16; 8] = unsafe { tm(a) };
    unsafe { tm(lanes!(4, |i: usize| a[i] as i32)) }
}
pub fn mm_cvtepu16_epi64(a: __m128i) -> __m128i {
    let a: [u16; 8] = unsafe { tm(a) };
    unsafe { tm(lanes!(2, |i: usize| a[i] as i64)) }
}
pub fn mm_cvtepu32_epi64(a: __m128i) -> __m128i {
    let a: [u32; 4] = unsafe { tm(a) };
    unsafe { tm(lanes!(2, |i: usize| a[i] as i64)) }
}
pub fn mm256_cvtepi8_epi16(a: __m128i) -> __m256i {
    let a: [i8; 16] = unsafe { tm(a) };
    unsafe { tm(lanes!(16, |i: usize| a[i] as i16)) }
}
pub fn mm256_cvtepi16_epi32(a: __m128i) -> __m256i {
    let a: [i16; 8] = unsafe { tm(a) };
    unsafe { tm(lanes!(8, |i: usize| a[i] as i32)) }
}
pub fn mm256_cvtepi32_epi64(a: __m128i) -> __m256i {
    let a: [i32; 4] = unsafe { tm(a) };
    unsafe { tm(lanes!(4, |i: usize| a[i] as i64)) }
}
pub fn mm256_cvtepu8_epi32(a: __m128i) -> __m256i {
    let a: [u8; 16] = unsafe { tm(a) };
    unsafe { tm(lanes!(8, |i: usize| a[i] as i32)) }
}
pub fn mm256_cvtepu16_epi32(a: __m128i) -> __m256i {
    let a: [u16; 8] = unsafe { tm(a) };
    unsafe { tm(lanes!(8, |i: usize| a[i] as i32)) }
}
pub fn mm256_cvtepu16_epi64(a: __m128i) -> __m256i {
    let a: [u16; 8] = unsafe { tm(a) };
    unsafe { tm(lanes!(4, |i: usize| a[i] as i64)) }
}
pub fn mm256_cvtepu32_epi64(a: __m128i) -> __m256i {
    let a: [u32; 4] = unsafe { tm(a) };
    unsafe { tm(lanes!(4, |i: usize| a[i] as i64)) }
}
pub fn mm_max_epu16(a: __m128i, b: __m128i) -> __m128i {
    let (a, b): ([u16; 8], [u16; 8]) = unsafe { (tm(a), tm(b)) };
    unsafe { tm(lanes!(8, |i: usize| if a[i] > b[i] { a[i] } else { b[i] })) }
}
pub fn mm_min_epi32(a: __m128i, b: __m128i) -> __m128i {
    let (a, b): ([i32; 4], [i32; 4]) = unsafe { (tm(a), tm(b)) };
    unsafe { tm(lanes!(4, |i: usize| if a[i] < b[i] { a[i] } else { b[i] })) }
}
pub fn mm_max_epi32(a: __m128i, b: __m128i) -> __m128i {
    let (a, b): ([i32; 4], [i32; 4]) = unsafe { (tm(a), tm(b)) };
    unsafe { tm(lanes!(4, |i: usize| if a[i] > b[i] { a[i] } else { b[i] })) }
}
pub fn mm_min_epu32(a: __m128i, b: __m128i) -> __m128i {
    let (a, b): ([u32; 4], [u32; 4]) = unsafe { (tm(a), tm(b)) };
    unsafe { tm(lanes!(4, |i: usize| if a[i] < b[i] { a[i] } else { b[i] })) }
}
pub fn mm_sub_epi32(a: __m128i, b: __m128i) -> __m128i {
    let (a, b): ([i32; 4], [i32; 4]) = unsafe { (tm(a), tm(b)) };
    unsafe { tm(lanes!(4, |i: usize| a[i].wrapping_sub(b[i]))) }
}
pub fn mm_sub_epi16(a: __m128i, b: __m128i) -> __m128i {
    let (a, b): ([i16; 8], [i16; 8]) = unsafe { (tm(a), tm(b)) };
    unsafe { tm(lanes!(8, |i: usize| a[i].wrapping_sub(b[i]))) }
}
pub fn mm256_sub_epi32(a: __m256i, b: __m256i) -> __m256i {
    let (a, b): ([i32; 8], [i32; 8]) = unsafe { (tm(a), tm(b)) };
    unsafe { tm(lanes!(8, |i: usize| a[i].wrapping_sub(b[i]))) }
}
pub fn mm_adds_epu16(a: __m128i, b: __m128i) -> __m128i {
    let (a, b): ([u16; 8], [u16; 8]) = unsafe { (tm(a), tm(b)) };
    unsafe { tm(lanes!(8, |i: usize| a[i].saturating_add(b[i]))) }
}
