//! Minimal stand-in for the `image` crate: only what fast_image_resize's optional glue names.
//! (the real crate's `rayon` feature uses rayon's plumbing API, which the sequential shim lacks)
use std::ops::{Deref, DerefMut};

pub struct ImageBuffer<T> {
    w: u32,
    h: u32,
    data: Vec<T>,
}
impl<T> ImageBuffer<T> {
    pub fn new(w: u32, h: u32, data: Vec<T>) -> Self {
        Self { w, h, data }
    }
}
impl<T> Deref for ImageBuffer<T> {
    type Target = [T];
    fn deref(&self) -> &[T] {
        &self.data
    }
}
impl<T> DerefMut for ImageBuffer<T> {
    fn deref_mut(&mut self) -> &mut [T] {
        &mut self.data
    }
}

#[non_exhaustive]
pub enum DynamicImage {
    ImageLuma8(ImageBuffer<u8>),
    ImageLumaA8(ImageBuffer<u8>),
    ImageRgb8(ImageBuffer<u8>),
    ImageRgba8(ImageBuffer<u8>),
    ImageLuma16(ImageBuffer<u16>),
    ImageLumaA16(ImageBuffer<u16>),
    ImageRgb16(ImageBuffer<u16>),
    ImageRgba16(ImageBuffer<u16>),
    ImageRgb32F(ImageBuffer<f32>),
}

impl DynamicImage {
    pub fn width(&self) -> u32 {
        match self {
            DynamicImage::ImageLuma8(i) | DynamicImage::ImageLumaA8(i) | DynamicImage::ImageRgb8(i) | DynamicImage::ImageRgba8(i) => i.w,
            DynamicImage::ImageLuma16(i) | DynamicImage::ImageLumaA16(i) | DynamicImage::ImageRgb16(i) | DynamicImage::ImageRgba16(i) => i.w,
            DynamicImage::ImageRgb32F(i) => i.w,
        }
    }
    pub fn height(&self) -> u32 {
        match self {
            DynamicImage::ImageLuma8(i) | DynamicImage::ImageLumaA8(i) | DynamicImage::ImageRgb8(i) | DynamicImage::ImageRgba8(i) => i.h,
            DynamicImage::ImageLuma16(i) | DynamicImage::ImageLumaA16(i) | DynamicImage::ImageRgb16(i) | DynamicImage::ImageRgba16(i) => i.h,
            DynamicImage::ImageRgb32F(i) => i.h,
        }
    }
    pub fn as_bytes(&self) -> &[u8] {
        match self {
            DynamicImage::ImageLuma8(i) | DynamicImage::ImageLumaA8(i) | DynamicImage::ImageRgb8(i) | DynamicImage::ImageRgba8(i) => &i.data,
            _ => &[],
        }
    }
}
