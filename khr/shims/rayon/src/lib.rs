//! Sequential stand-in for the part of rayon's API that fast_image_resize uses, for Kani
//! (Kani has no concurrency; rayon's registry cannot be encoded).
//! Contract kept: `for_each` visits every item exactly once; the ORDER is chosen
//! nondeterministically (forward or backward), the pool size is nondeterministic in 1..=3.
pub mod prelude {
    pub use crate::iter::{IndexedParallelIterator, IntoParallelIterator, ParallelIterator};
}

pub fn current_num_threads() -> usize {
    #[cfg(kani)]
    {
        let n: usize = kani::any();
        kani::assume(n >= 1 && n <= 3);
        n
    }
    #[cfg(not(kani))]
    {
        2
    }
}

pub mod iter {
    pub trait ParallelIterator: Sized {
        type Item;
        fn into_seq(self) -> Vec<Self::Item>;
        fn for_each<F: Fn(Self::Item)>(self, f: F) {
            let mut v = self.into_seq();
            #[cfg(kani)]
            let backward: bool = kani::any();
            #[cfg(not(kani))]
            let backward = false;
            if backward {
                v.reverse();
            }
            for x in v {
                f(x);
            }
        }
    }

    pub trait IndexedParallelIterator: ParallelIterator {
        fn zip<Z: IntoParallelIterator>(self, other: Z) -> Zip<Self, Z::Iter> {
            Zip(self, other.into_par_iter())
        }
    }

    pub trait IntoParallelIterator {
        type Iter: ParallelIterator<Item = Self::Item>;
        type Item;
        fn into_par_iter(self) -> Self::Iter;
    }

    pub struct VecIter<T>(Vec<T>);
    impl<T> ParallelIterator for VecIter<T> {
        type Item = T;
        fn into_seq(self) -> Vec<T> {
            self.0
        }
    }
    impl<T> IndexedParallelIterator for VecIter<T> {}
    impl<T> IntoParallelIterator for Vec<T> {
        type Iter = VecIter<T>;
        type Item = T;
        fn into_par_iter(self) -> VecIter<T> {
            VecIter(self)
        }
    }
    impl<I: ParallelIterator> IntoParallelIterator for I {
        type Iter = I;
        type Item = I::Item;
        fn into_par_iter(self) -> I {
            self
        }
    }

    pub struct Zip<A, B>(A, B);
    impl<A: ParallelIterator, B: ParallelIterator> ParallelIterator for Zip<A, B> {
        type Item = (A::Item, B::Item);
        fn into_seq(self) -> Vec<(A::Item, B::Item)> {
            self.0.into_seq().into_iter().zip(self.1.into_seq()).collect()
        }
    }
    impl<A: ParallelIterator, B: ParallelIterator> IndexedParallelIterator for Zip<A, B> {}
}
