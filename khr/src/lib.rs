//! C08 (b): the real threading glue (`threading.rs`, `try_process_in_threads_*!`,
//! `process_*_images!`) with rayon replaced by a sequential nondeterministic shim.
#![allow(unused)]
#[cfg(kani)]
#[path = "../../kh/src/kern.rs"]
pub mod kern;

#[cfg(kani)]
mod c08b {
    use crate::kern::*;
    use fast_image_resize::pixels::*;
    use fast_image_resize::CpuExtensions;

    const SW: usize = 3;
    const SH: usize = 35;
    const DW: usize = 2;
    const DH: usize = 32;

    const fn background() -> [u8; SW * SH] {
        let mut a = [0u8; SW * SH];
        let mut i = 0;
        while i < SW * SH {
            a[i] = ((i * 37 + 11) % 251) as u8;
            i += 1;
        }
        a
    }
    const BG: [u8; SW * SH] = background();

    // @h c08b_h_u8_split | prop=C08 | tier=thorough | t=3600 | mem=16 | enc=threading::split_h_two_images_for_threading, try_process_in_threads_h!, U8 native horizontal kernel, split_by_height(_mut) | bounds=symbolic: pool size 1..=3, band order, 3 source pixels; enumerated: U8 3x35 -> 2x32 with source offset 3 (the smallest shape that splits); unwind 37
    #[kani::proof]
    #[kani::unwind(37)]
    pub fn c08b_h_u8_split() {
        let mut src = BG;
        src[4] = kani::any();
        src[3 * SW + 1] = kani::any();
        src[20 * SW + 2] = kani::any();
        let mut dst = [0u8; DW * DH];
        let pass = Pass { precision: 14, bounds: &[(0, 2), (1, 2)], coeffs: &[&[12288, 4096], &[2048, 14336]] };
        check_horiz::<U8>(CpuExtensions::None, &src, SW, SH, &mut dst, DW, DH, 3, &pass);
    }
}
