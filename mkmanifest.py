#!/usr/bin/env python3
"""Regenerates MANIFEST.json from the table below (keep the table current)."""
import json
from pathlib import Path

V = Path(__file__).resolve().parent

TECH = "bounded symbolic execution of the real code with Kani 0.68 -> CBMC 6.11 -> CaDiCaL (SAT verdict over symbolic inputs, unwinding assertions on, counterexamples replayed natively)"

CLAIMED = {
    "C04": {
        "text": "All validation arithmetic is decided for every machine value: the six cropped-view constructors for all u32^6, the resize crop box for all f64^4 x u32^2 (through the hook and through resize_typed), buffer-size/alignment checks of Image/ImageRef/TypedImage(Ref) constructors for all u32 width/height with symbolic buffer length 0..40 bytes and start offset 0..7; accepted views (parents <= 4x4, symbolic rectangle) expose exactly height rows of exactly width pixels from inside the parent. No loops besides the small row loops, so the only bound is the buffer/parent size.",
        "note": "Trusted: Kani/CBMC/CaDiCaL; the oracles in kh/src/c04.rs (wide-integer 'inside' predicate; for f64 the box may be judged either by left+width<=W or width<=W-left when the two roundings disagree; empty rectangles on the far edge and empty misaligned buffers may go either way). Pixel types of the buffer checks are enumerated (3 quick, 7 thorough).",
        "design": "5/C04",
    },
}

CLAIMED.update({
    "C17": {
        "text": "All 12 non-identity component conversions are driven through change_type_of_pixel_components_typed on 2x1/1x1 images with both component values symbolic, i.e. every pair of u8 / u16 / i32 / f32 bit patterns (incl. NaN, +-inf) is decided at once: endpoints, monotonicity, saturation of out-of-range floats, widening round trips (u8->u16/i32/f32->u8, u16->i32/f32->u16), per-component placement for multi-component pixels, rejection of different dimensions (sizes 0..2 symbolic) and of different component counts through the dynamic entry point (type pairs enumerated: 4 quick, 31 thorough).",
        "note": "Trusted: Kani/CBMC/CaDiCaL incl. CBMC's IEEE-754 float encoding; oracles in kh/src/c17.rs. Two endpoint deviations of the pinned tree (u8/u16 -> i32 map max to max<<23 / max<<15 instead of i32::MAX) are listed in known_findings.json.",
        "design": "5/C17",
    },
    "C02": {
        "text": "For each of the 8 integer pixel types and each of SSE4.1 and AVX2, the real horizontal and vertical kernels (real dispatch, real intrinsics sequence with 40 intrinsics replaced by differential-tested scalar models) are proven equal to the closed-form fixed-point specification clamp((sum c*px + 2^(p-1)) >> p) for ALL image contents, over an enumerated residue matrix of window lengths, row counts (4-row block and leftover rows), non-zero source offsets and row widths; the portable kernels are proven equal to the same specification, so SIMD == portable byte for byte on these shapes.",
        "note": "Coefficient windows are synthetic (distinct sparse values under the interface invariant) and injected at the Normalizer boundary; geometry/shape is enumerated, not symbolic (quick: 32 shapes, thorough: ~230). Alpha SIMD==scalar is decided under C06. F32/I32 kernels and NEON/WASM are outside the claim. Trusted: x86 intrinsic models (x86_model.rs; native differential self-test against this CPU runs before every SIMD obligation).",
        "design": "5/C02",
    },
    "C10": {
        "text": "With the REAL quantised coefficients of enumerated geometries (built-in filters, crops, up/down-scales), the real horizontal and vertical kernels map a uniform image of symbolic value v (all 256 / 65536 values at once) to exactly v, on the portable and AVX2/SSE4.1 back-ends; the partition premise sum(c)=2^p+e, |e|*max<2^(p-1) of every real window is also checked concretely at generation time.",
        "note": "Geometries enumerated (3 quick, ~30 thorough incl. seeded random ones); float pixel types outside the claim; the float stage is executed natively (fstage), not explored symbolically.",
        "design": "5/C10",
    },
})

NA = {
    "C16": "table entries are powf values (transcendental; CBMC over-approximates powf, SMT has no theory) and table construction needs 2x(2*256+2*65536) closure calls, beyond any unwinding bound that finishes; see DESIGN.md section 6",
}

PENDING = "check not built yet in this revision of /verif (planned, see DESIGN.md section 8)"

props = [json.loads(l) for l in (V / "properties.jsonl").read_text().splitlines() if l.strip()]

checks = []
na = []
for p in props:
    pid = p["id"]
    if pid in CLAIMED:
        c = CLAIMED[pid]
        checks.append({
            "property_id": pid,
            "quick_cmd": "python3 /verif/chk.py %s --tier quick" % pid,
            "thorough_cmd": "python3 /verif/chk.py %s --tier thorough" % pid,
            "evidence_file": "/verif/evidence/%s.json" % pid,
            "replay_cmd_template": "python3 /verif/chk.py --replay {path}",
            "engine": "kani-cbmc",
            "level_claimed": {"category": "other", "text": c["text"], "design_ref": c["design"]},
            "level_note": c["note"],
            "technique": TECH,
        })
    else:
        na.append({"property_id": pid, "reason": NA.get(pid, PENDING)})

m = {
    "version": 1,
    "setup_cmd": "python3 /verif/chk.py --setup",
    "hooks": {
        "guard": "fir_verif",
        "enable": "RUSTFLAGS='--cfg fir_verif' (rustc cfg; the harness crate /verif/kh depends on /repo by path and is built by cargo kani with that flag)",
        "baseline_off_cmd": "cd /repo && cargo nextest run --workspace --no-fail-fast --tool-config-file pb:/w/lib/nextest.toml --profile pb --test-threads 8 --offline || cargo test --workspace --no-fail-fast --offline",
        "source_commits": ["6b2ee8d2d6bd47549390591e894ff650100d69f4"],
        "add_only": True,
    },
    "engines": [
        {"name": "kani-cbmc", "path": "/verif/chk.py + /verif/kh",
         "serves_properties": sorted(CLAIMED),
         "kind_free_text": "Kani proof harnesses over the real crate (path dependency on /repo, rebuilt on every run), decided by CBMC/CaDiCaL; counterexamples replayed natively in dev and release-like profiles via Kani concrete playback"},
    ],
    "checks": checks,
    "not_applicable": na,
    "notes": "Exit 2 from a check = inconclusive (timeout/OOM/unwinding/vacuous/non-replaying counterexample); it is never reported as success. known_findings.json is read-only at run time.",
}
(V / "MANIFEST.json").write_text(json.dumps(m, indent=1) + "\n")
print("claimed:", sorted(CLAIMED), "not_applicable:", [x["property_id"] for x in na])
