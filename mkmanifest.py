#!/usr/bin/env python3
"""Regenerates MANIFEST.json from the table below (keep the table current)."""
import json
import os
from pathlib import Path

V = Path(__file__).resolve().parent

TECH = "bounded symbolic execution of the real code with Kani 0.68 -> CBMC 6.11 -> CaDiCaL (SAT verdict over symbolic inputs, unwinding assertions on, counterexamples replayed natively)"

CLAIMED = {
    "C04": {
        "text": "All validation arithmetic is decided for every machine value: the six cropped-view constructors for all u32^6, the resize crop box for all f64^4 x u32^2 (through the hook and through resize_typed), buffer-size/alignment checks of Image/ImageRef/TypedImage(Ref) constructors for all u32 width/height with symbolic buffer length 0..40 bytes and start offset 0..7; accepted views (parents <= 4x4, symbolic rectangle) expose exactly height rows of exactly width pixels from inside the parent. No loops besides the small row loops, so the only bound is the buffer/parent size.",
        "note": "Trusted: Kani/CBMC/CaDiCaL; the oracles in kh/src/c04.rs (wide-integer 'inside' predicate; for f64 the box may be judged either by left+width<=W or width<=W-left when the two roundings disagree; empty rectangles on the far edge and empty misaligned buffers may go either way). Pixel types of the buffer checks are enumerated (3 quick, 7 thorough).",
        "design": "5/C04",
    },
}

CLAIMED.update({
    "C17": {
        "text": "All 12 non-identity component conversions are driven through change_type_of_pixel_components_typed on 2x1/1x1 images with both component values symbolic, i.e. every pair of u8 / u16 / i32 / f32 bit patterns (incl. NaN, +-inf) is decided at once: endpoints, monotonicity, saturation of out-of-range floats, widening round trips (u8->u16/i32/f32->u8, u16->i32/f32->u16), per-component placement for multi-component pixels, rejection of different dimensions (sizes 0..2 symbolic) and of different component counts through the dynamic entry point (type pairs enumerated: 4 quick, 31 thorough).",
        "note": "Trusted: Kani/CBMC/CaDiCaL incl. CBMC's IEEE-754 float encoding; oracles in kh/src/c17.rs. Two endpoint deviations of the pinned tree (u8/u16 -> i32 map max to max<<23 / max<<15 instead of i32::MAX) are listed in known_findings.json.",
        "design": "5/C17",
    },
    "C02": {
        "text": "For each of the 8 integer pixel types and each of SSE4.1 and AVX2, the real horizontal and vertical kernels (real dispatch, real intrinsics sequence with 40 intrinsics replaced by differential-tested scalar models) are proven equal to the closed-form fixed-point specification clamp((sum c*px + 2^(p-1)) >> p) for ALL image contents, over an enumerated residue matrix of window lengths, row counts (4-row block and leftover rows), non-zero source offsets and row widths; the portable kernels are proven equal to the same specification, so SIMD == portable byte for byte on these shapes.",
        "note": "Coefficient windows are synthetic (distinct sparse values under the interface invariant) and injected at the Normalizer boundary; geometry/shape is enumerated, not symbolic (quick: 32 shapes, thorough: ~230). Alpha SIMD==scalar is decided under C06. F32/I32 kernels and NEON/WASM are outside the claim. Trusted: x86 intrinsic models (x86_model.rs; native differential self-test against this CPU runs before every SIMD obligation).",
        "design": "5/C02",
    },
    "C10": {
        "text": "With the REAL quantised coefficients of enumerated geometries (built-in filters, crops, up/down-scales), the real horizontal and vertical kernels map a uniform image of symbolic value v (all 256 / 65536 values at once) to exactly v, on the portable and AVX2/SSE4.1 back-ends; the partition premise sum(c)=2^p+e, |e|*max<2^(p-1) of every real window is also checked concretely at generation time.",
        "note": "Geometries enumerated (3 quick, ~30 thorough incl. seeded random ones); float pixel types outside the claim; the float stage is executed natively (fstage), not explored symbolically.",
        "design": "5/C10",
    },
})

CANDIDATES = {
    "C01": {
        "text": "K level with the REAL quantised coefficients of enumerated geometries, horizontal and vertical pass. (1) For U8 Bilinear 8->3 and ALL contents: |out - ideal resampling| <= 1/2 + max*n*2^-(p+1), the ideal weights coming from the independent reference/ideal.py (pixel-centre mapping, documented kernels, adaptive scale, normalisation; scaled by 2^24). (2) For the other geometries in two steps: (a) kernel == round-to-nearest fixed-point specification of its own coefficients for symbolic contents (4 components at generator-chosen positions over a fixed background), (b) every real coefficient equals the ideal weight rounded to 2^-p and the real window lies inside the ideal one (constants; a change of the float stage shows up as a failed assertion with a replayable counterexample); (a)+(b) give the same bound by the triangle inequality (argued in kern.rs, not a solver result). Pass order, clamping between passes and SuperSampling's two-step structure are decided at P level (C05, C12).",
        "note": "Geometries enumerated (3 quick / ~30 thorough, source <= 12 per side, 7 built-in filters, integer/fractional/edge-flush crops); windows whose sample centre sits on a kernel discontinuity are skipped and listed in the evidence; I32/F32 arithmetic outside; the float stage is executed natively, a change to it shows up as different constants in the next run.",
        "design": "5/C01",
    },
    "C03": {
        "text": "Assume-guarantee with all Kani default checks on (pointer validity against exact array extents, arithmetic overflow, unreachable, unwrap, debug_assert): (1) validation never panics and accepts nothing outside (C04 harnesses); (2) the real float stage's windows satisfy the interface invariant the unsafe kernels trust (start+size <= source, coefficient range, precision in the dispatch table, sum|c| < 4*2^p) on 30+ geometries incl. edge-flush/1-pixel/denormal-width crops - concrete evaluation reported in evidence; (3) every integer pixel type x {portable, SSE4.1, AVX2} horizontal (5 rows, offset 1) and vertical (chunked widths) kernel under that invariant with buffers ending exactly at the last pixel; (4) nearest and convolution through resize_typed on sub-pixel boxes flush with the far edges, 1-pixel sources, strided source and destination views.",
        "note": "Contents of (3) are 2 components at symbolic positions over a fixed background (memory safety of these kernels does not depend on pixel values, only on indices); geometry enumerated; custom filters with 2 <= sum|w| < 4 are NOT covered (by reading: they can trip the debug_assert of the 8-bit clip table in debug builds); allocation failure out of scope.",
        "design": "5/C03",
    },
    "C05": {
        "text": "P level: Resizer::resize_typed with symbolic source AND symbolic old destination buffer; after Ok the destination rectangle equals the composed specification of the two passes (which never reads the old destination, so a stale pixel is a counterexample) and every component outside the rectangle - surroundings of a mutable cropped view, spare capacity of an over-long buffer - keeps its old value. Instances: two-pass U8 into a cropped view, two-pass U16 exact, horizontal-only with crop top > 0 into an over-long buffer, horizontal-only SSE4.1 5 rows from a taller source into a cropped view with parent rows below it; thorough adds vertical-only portable / SSE4.1 instances.",
        "note": "Sizes <= 6; real window bounds, synthetic power-of-two weights (arithmetic is decided at K level); scratch buffers of the Resizer have symbolic content; alpha operations and conversions are covered by C06/C17 whole-row checks; thread counts outside.",
        "design": "5/C05",
    },
    "C06": {
        "text": "Public MulDiv typed entry points (in-place and two-image) on a 1xK row; one pixel at an enumerated lane position carries symbolic (colour.., alpha): U8x2/U8x4 all 65536 pairs, U16x2/U16x4 multiply all 2^32 pairs, per back-end {portable, SSE4.1, AVX2}: multiply == round(c*a/max) exactly; divide is one of the two neighbours of c*max/a, saturated at max, alpha 0 -> 0; alpha component unchanged; fixed background pixels also checked; the 7 pixel types without alpha are rejected and left untouched. 16-bit divide on the portable path: alpha sliced ([0,255] whole, 16-wide slices elsewhere: 3 quick, 256 seeded thorough).",
        "note": "Known findings (listed, still reported as KNOWN-FINDING): 16-bit SIMD divide does not saturate (U16x2) / mishandles quotients >= 2^31 (U16x2; U16x4 - seen in the thorough tier only, its SIMD divide harnesses need 5-12 min each). The portable alpha=1 overflow was fixed (0f2e647). Float alpha types outside; lane positions: first, last of chunk, remainder (all in thorough).",
        "design": "5/C06",
    },
    "C07": {
        "text": "Relational P level: two runs of resize_typed (alpha on) on sources that differ only in the colour of pixels with alpha 0 give identical destinations, with a crop strictly inside the row so the filter window reaches pixels outside the crop box; destination alpha 0 => colour 0; the alpha channel equals the plain resample of the alpha plane; a fully opaque source gives the same result as use_alpha(false).",
        "note": "U8x2/U8x4/U16x2 (U16x4 and SIMD in thorough); sizes <= 4; real window bounds with power-of-two weights; F32 alpha types outside.",
        "design": "5/C07",
    },
    "C08": {
        "text": "Only the band-count arithmetic: calculate_max_{h,v}_parts_number for all u32 x u32 sizes never panics and never exceeds the extent (found and fixed the u32 overflow for sides >= 65536). The tiling facts the threading macros rely on are decided under C14.",
        "note": "NOT decided: the real threading.rs glue (which source rows go with which destination band) and rayon interleavings - the smallest images that actually split have >= 32x32 or 128x2 pixels and did not finish with a sequential rayon shim; Kani has no concurrency. A wrong band pairing would be missed.",
        "design": "5/C08",
    },
    "C09": {
        "text": "One inductive step instead of call histories: a Resizer with arbitrary scratch state (three byte vectors of symbolic content, exact and over-sized) and a fresh Resizer perform the same resize; results identical. Alpha path with a crop away from the edges and a x4 vertical down-scale (windows leave the crop), two-pass U8 and U16. Every other P-level harness also runs on symbolic scratch.",
        "note": "Any history / clone / reset only produces some such state (buffers are only grown and written); vector alignment is whatever Kani models for Vec<u8>; sizes <= 10.",
        "design": "5/C09",
    },
    "C11": {
        "text": "P level ResizeAlg::Nearest, all contents: destination pixel (x,y) is a bit-exact copy of source pixel (ix[x], iy[y]) with indices from reference/ideal.py in exact rational arithmetic (either neighbour within 2^-40 of an integer), index inside the source; sub-pixel crop boxes flush with the far corner; cropped / over-long destinations; outside of the rectangle unchanged.",
        "note": "Geometry enumerated (4 quick, 18 thorough with seeded sizes <= 7 and all 13 pixel types).",
        "design": "5/C11",
    },
    "C12": {
        "text": "P level: destination size == integer crop size => bit-exact copy for Convolution / Interpolation / SuperSampling / Nearest, alpha on/off; one matching dimension => only the other pass's coefficients are consumed (injection-queue check) and the result is the 1-D specification; SuperSampling with one matching dimension; SuperSampling whose nearest intermediate has exactly the destination size (found and fixed the stale-destination defect).",
        "note": "Sizes <= 6; 5 pixel types quick, all 13 thorough.",
        "design": "5/C12",
    },
    "C13": {
        "text": "Same logical operation with the source as cropped view (interior / flush), nested crop or owned image and the destination exact / over-long / cropped: destination equals the specification of the logical region; plus a relational harness: Nearest from a cropped view and from an owned copy of the same region (destination centre exactly on a source row boundary) give identical pixels.",
        "note": "Placement enumerated; dynamic (Image / resize) entry points are only exercised in C17's dispatch harnesses; single-pass geometries (two-pass glue is C05).",
        "design": "5/C13",
    },
    "C14": {
        "text": "split_by_height/width(_mut): (start,size) symbolic incl. invalid values, number of parts enumerated; None iff invalid; otherwise exactly `parts` views, in order, sizes differing by <= 1, exposing exactly the tagged pixels of their band; mutable parts: a distinct value is written through each part and the whole parent buffer is compared with the exact owner map (so overlap or a write outside the band is a counterexample). Containers: TypedImageRef, TypedImage, TypedCroppedImage(Mut) interior / flush / nested.",
        "note": "View sizes <= 4x5 (the code has no size-dependent branch besides div/mod - argued, not proved); pointer checks off for these harnesses (functional tag check instead).",
        "design": "5/C14",
    },
    "C15": {
        "text": "CropBox::fit_src_into_dst_size with all four sizes symbolic in 1..=3 (thorough 1..=5, 7, and 1..=31 for the in-bounds part): positive size, non-negative origin, inside the source exactly as CroppedSrcImageView::crop evaluates it, full span in one dimension, aspect ratio (centering any non-NaN f64 pair); margins = removed size x clamped centering (centering pair picked symbolically from {-3.5, 0, .25, .5, .75, 1, 7, +inf}^2 - with a free f64 the product of two symbolic doubles does not finish); zero sizes -> whole image.",
        "note": "Everything above 3 (thorough: 31 for in-bounds, 5 for centering/aspect) is OUTSIDE the claim - i.e. almost all of the 1..65535 range, including the double-rounding cases (the smallest overshooting pair of fl(fl(w/h)*h) is 7x25; seeded change C15a is missed for that reason).",
        "design": "5/C15",
    },
    "C18": {
        "text": "K level with the real coefficients of Box/Bilinear/Hamming/Gaussian geometries (verified non-negative at generation time): for all contents min(window) <= out <= max(window); monotonicity: out(a) <= out(max(a,c)) componentwise, on portable and SIMD back-ends.",
        "note": "Geometries enumerated; long windows use 3 symbolic components over a fixed background; float/I32 types outside.",
        "design": "5/C18",
    },
}

ENABLED = set(os.environ.get("VERIF_ENABLE", "").split(",")) if False else set(open(V / "enabled.txt").read().split())
for k in sorted(ENABLED):
    if k in CANDIDATES:
        CLAIMED[k] = CANDIDATES[k]

NA = {
    "C16": "table entries are powf values (transcendental; CBMC over-approximates powf, SMT has no theory) and table construction needs 2x(2*256+2*65536) closure calls, beyond any unwinding bound that finishes; see DESIGN.md section 6",
}

PENDING = "harnesses exist in /verif/kh but the check is not yet stable on the unchanged tree (some obligation inconclusive within the caps); not claimed in this revision"

props = [json.loads(l) for l in (V / "properties.jsonl").read_text().splitlines() if l.strip()]

checks = []
na = []
for p in props:
    pid = p["id"]
    if pid in CLAIMED:
        c = CLAIMED[pid]
        checks.append({
            "property_id": pid,
            "quick_cmd": "python3 /verif/chk.py %s --tier quick" % pid,
            "thorough_cmd": "python3 /verif/chk.py %s --tier thorough" % pid,
            "evidence_file": "/verif/evidence/%s.json" % pid,
            "replay_cmd_template": "python3 /verif/chk.py --replay {path}",
            "engine": "kani-cbmc",
            "level_claimed": {"category": "other", "text": c["text"], "design_ref": c["design"]},
            "level_note": c["note"],
            "technique": TECH,
        })
    else:
        na.append({"property_id": pid, "reason": NA.get(pid, PENDING)})

m = {
    "version": 1,
    "setup_cmd": "python3 /verif/chk.py --setup",
    "hooks": {
        "guard": "fir_verif",
        "enable": "RUSTFLAGS='--cfg fir_verif' (rustc cfg; the harness crate /verif/kh depends on /repo by path and is built by cargo kani with that flag)",
        "baseline_off_cmd": "cd /repo && cargo nextest run --workspace --no-fail-fast --tool-config-file pb:/w/lib/nextest.toml --profile pb --test-threads 8 --offline || cargo test --workspace --no-fail-fast --offline",
        "source_commits": ["6b2ee8d2d6bd47549390591e894ff650100d69f4", "d7fa18a012782b0f36ec28b19f8071f84f81d5c4", "60336abfee3570de5f784271f4d5ffa461f463be"],
        "add_only": True,
    },
    "engines": [
        {"name": "kani-cbmc", "path": "/verif/chk.py + /verif/kh",
         "serves_properties": sorted(CLAIMED),
         "kind_free_text": "Kani proof harnesses over the real crate (path dependency on /repo, rebuilt on every run), decided by CBMC/CaDiCaL; counterexamples replayed natively in dev and release-like profiles via Kani concrete playback"},
    ],
    "checks": checks,
    "not_applicable": na,
    "notes": "Exit 2 from a check = inconclusive (timeout/OOM/unwinding/vacuous/non-replaying counterexample); it is never reported as success. known_findings.json is read-only at run time.",
}
(V / "MANIFEST.json").write_text(json.dumps(m, indent=1) + "\n")
print("claimed:", sorted(CLAIMED), "not_applicable:", [x["property_id"] for x in na])
