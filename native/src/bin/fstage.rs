//! Float-stage evaluator: runs the REAL `precompute_coefficients`, `Normalizer16::new`
//! and `Normalizer32::new` of /repo (through the cfg(fir_verif) accessors) for a list
//! of 1-D geometries and prints what they produce as JSON.
//!
//! stdin: one geometry per line: `<id> <in_size> <in0> <in1> <out_size> <filter> <adaptive 0|1>`
//! stdout: JSON object id -> { window_size, f64: [[start, [w..]]..], p16, c16: [[start,[c..]]..], p32, c32 }
use fast_image_resize::verif_api as va;
use fast_image_resize::FilterType;
use std::io::BufRead;

fn filter(name: &str) -> FilterType {
    match name {
        "Box" => FilterType::Box,
        "Bilinear" => FilterType::Bilinear,
        "Hamming" => FilterType::Hamming,
        "CatmullRom" => FilterType::CatmullRom,
        "Mitchell" => FilterType::Mitchell,
        "Gaussian" => FilterType::Gaussian,
        "Lanczos3" => FilterType::Lanczos3,
        _ => panic!("unknown filter {name}"),
    }
}

fn main() {
    let stdin = std::io::stdin();
    let mut first = true;
    println!("{{");
    for line in stdin.lock().lines() {
        let line = line.unwrap();
        let t: Vec<&str> = line.split_whitespace().collect();
        if t.len() != 7 {
            continue;
        }
        let id = t[0];
        let in_size: u32 = t[1].parse().unwrap();
        let in0: f64 = t[2].parse().unwrap();
        let in1: f64 = t[3].parse().unwrap();
        let out_size: u32 = t[4].parse().unwrap();
        let f = filter(t[5]);
        let adaptive = t[6] == "1";
        let c = va::coefficients(in_size, in0, in1, out_size, f, adaptive);
        let n16 = va::normalized16(in_size, in0, in1, out_size, f, adaptive);
        let n32 = va::normalized32(in_size, in0, in1, out_size, f, adaptive);
        if !first {
            println!(",");
        }
        first = false;
        print!("\"{}\": {{\"window_size\": {}, \"f64\": [", id, c.window_size);
        for (i, w) in c.windows.iter().enumerate() {
            if i > 0 {
                print!(",");
            }
            let ws: Vec<String> = w.weights.iter().map(|v| format!("{:e}", v)).collect();
            print!("[{}, [{}]]", w.start, ws.join(","));
        }
        print!("], \"p16\": {}, \"c16\": [", n16.precision);
        for (i, w) in n16.windows.iter().enumerate() {
            if i > 0 {
                print!(",");
            }
            let ws: Vec<String> = w.weights.iter().map(|v| v.to_string()).collect();
            print!("[{}, [{}]]", w.start, ws.join(","));
        }
        print!("], \"p32\": {}, \"c32\": [", n32.precision);
        for (i, w) in n32.windows.iter().enumerate() {
            if i > 0 {
                print!(",");
            }
            let ws: Vec<String> = w.weights.iter().map(|v| v.to_string()).collect();
            print!("[{}, [{}]]", w.start, ws.join(","));
        }
        print!("]}}");
    }
    println!("\n}}");
}
