"""Independent reference model of the resampling geometry and kernels.

Written from the README / FilterType documentation (pixel-centre mapping, documented
kernels and supports, adaptive kernel scale, weights normalised to sum 1).  Shares no
code with the crate.  Plain f64 arithmetic (math module); the comparison with the crate's
weights uses explicit tolerances, so f64 noise (1e-15) is irrelevant.
"""
import math
from fractions import Fraction

SUPPORT = {"Box": 0.5, "Bilinear": 1.0, "Hamming": 1.0, "CatmullRom": 2.0,
           "Mitchell": 2.0, "Gaussian": 3.0, "Lanczos3": 3.0}
NONNEG = {"Box", "Bilinear", "Hamming", "Gaussian"}


def sinc(x):
    if x == 0.0:
        return 1.0
    x *= math.pi
    return math.sin(x) / x


def kernel(name, x):
    """Continuous kernels as documented (Pillow semantics)."""
    if name == "Box":
        return 1.0 if -0.5 < x <= 0.5 else 0.0
    a = abs(x)
    if name == "Bilinear":
        return 1.0 - a if a < 1.0 else 0.0
    if name == "Hamming":
        if a == 0.0:
            return 1.0
        if a >= 1.0:
            return 0.0
        return sinc(a) * (0.54 + 0.46 * math.cos(math.pi * a))
    if name == "CatmullRom":
        A = -0.5
        if a < 1.0:
            return ((A + 2.0) * a - (A + 3.0)) * a * a + 1.0
        if a < 2.0:
            return (((a - 5.0) * a + 8.0) * a - 4.0) * A
        return 0.0
    if name == "Mitchell":
        B = C = 1.0 / 3.0
        if a < 1.0:
            return ((12 - 9 * B - 6 * C) * a ** 3 + (-18 + 12 * B + 6 * C) * a ** 2 + (6 - 2 * B)) / 6.0
        if a < 2.0:
            return ((-B - 6 * C) * a ** 3 + (6 * B + 30 * C) * a ** 2 + (-12 * B - 48 * C) * a + (8 * B + 24 * C)) / 6.0
        return 0.0
    if name == "Gaussian":
        if -3.0 <= x < 3.0:
            r = 0.5
            return math.exp(-x * x / (2 * r * r)) / (math.sqrt(2 * math.pi) * r)
        return 0.0
    if name == "Lanczos3":
        if -3.0 <= x < 3.0:
            return sinc(x) * sinc(x / 3.0)
        return 0.0
    raise ValueError(name)


def discontinuity_points(name):
    """|x| positions where the kernel jumps (ideal weight undefined there)."""
    if name == "Box":
        return [0.5]
    if name == "Gaussian":
        return [3.0]
    return []


def ideal_weights(in_size, in0, in1, out_size, name, adaptive):
    """Per output sample: dict {source index: weight}, weights normalised to sum 1,
    plus the set of source indices whose argument sits (within 1e-9) on a kernel
    discontinuity (their ideal weight is undefined; the property widens the bound)."""
    scale = (in1 - in0) / out_size
    fscale = max(scale, 1.0) if adaptive else 1.0
    support = SUPPORT[name] * fscale
    res = []
    for x in range(out_size):
        center = in0 + (x + 0.5) * scale
        lo = max(0, int(math.floor(center - support)) - 1)
        hi = min(in_size, int(math.ceil(center + support)) + 1)
        w = {}
        fuzzy = set()
        for i in range(lo, hi):
            arg = (i + 0.5 - center) / fscale
            if abs(arg) > SUPPORT[name] + 1e-12:
                continue
            for d in discontinuity_points(name):
                if abs(abs(arg) - d) < 1e-9:
                    fuzzy.add(i)
            v = kernel(name, arg)
            if v != 0.0:
                w[i] = v
        s = sum(w.values())
        if s != 0.0:
            w = {i: v / s for i, v in w.items()}
        res.append((w, fuzzy))
    return res


def nearest_index(left, crop_w, dst_w, x):
    """floor(left + (x + 0.5) * crop_w / dst_w) in exact rational arithmetic; also says
    whether the ideal coordinate is within 2^-40 (relative to 1 pixel) of an integer."""
    l = Fraction(left)
    cw = Fraction(crop_w)
    pos = l + (Fraction(2 * x + 1, 2)) * cw / dst_w
    fl = math.floor(pos)
    frac = pos - fl
    eps = Fraction(1, 2 ** 40)
    near = frac < eps or (1 - frac) < eps
    alt = fl - 1 if frac < eps else (fl + 1 if (1 - frac) < eps else fl)
    return fl, near, alt
