#!/bin/bash
# confirm_seed.sh <worktree> <prop> <seed-id>
# Confirms an independently produced seeded change in its scratch worktree:
#   with the change:    demo FAILS, the 65 baseline tests still pass
#   without the change: demo PASSES
# then stores patch.diff / demo / meta.json under /verif/seeded/<seed-id>/ and removes the worktree.
set -u
WT=$1; PROP=$2; ID=$3
OUT=/verif/seeded/$ID
mkdir -p $OUT
cd $WT || exit 2
export CARGO_NET_OFFLINE=true
git diff -- src > $OUT/patch.diff
[ -s $OUT/patch.diff ] || { echo "no source change in $WT"; exit 2; }
cp tests/seeded_demo.rs $OUT/seeded_demo.rs
cp NOTES.md $OUT/NOTES.md 2>/dev/null

echo "== demo WITH change (must fail)"
cargo test --offline --test seeded_demo > $OUT/demo_with.log 2>&1; RC_WITH=$?
echo "rc=$RC_WITH"
echo "== full suite WITH change"
cargo nextest run --workspace --no-fail-fast --offline --test-threads 8 > $OUT/suite_with.log 2>&1
python3 - "$OUT/suite_with.log" > $OUT/suite_with.summary <<'EOF'
import json,re,sys
base=json.load(open('/root/.vp/BASELINE.json'))
log=open(sys.argv[1]).read()
failed=set(re.findall(r"^\s+FAIL \[[^\]]*\]\s+(\S+)\s+(\S+)", log, re.M))
failed_names=set()
for binid,name in failed:
    b=binid.split('::')
    failed_names.add(binid+'::'+name)
stable=set(base['stable_pass'])
broken=sorted(n for n in failed_names if n in stable)
m=re.search(r"Summary.*", log)
print(m.group(0) if m else "no summary")
print("baseline tests broken:", broken)
sys.exit(1 if broken or not m else 0)
EOF
RC_SUITE=$?
cat $OUT/suite_with.summary
echo "== demo WITHOUT change (must pass)"
git stash push -q -- src
cargo test --offline --test seeded_demo > $OUT/demo_without.log 2>&1; RC_WITHOUT=$?
git stash pop -q
echo "rc=$RC_WITHOUT"
OKAY=false
if [ $RC_WITH -ne 0 ] && [ $RC_WITHOUT -eq 0 ] && [ $RC_SUITE -eq 0 ]; then OKAY=true; fi
python3 - <<EOF
import json
json.dump({
 "seed_id": "$ID", "property": "$PROP",
 "confirmed": "$OKAY"=="true",
 "demo_with_change_exit": $RC_WITH, "demo_without_change_exit": $RC_WITHOUT, "baseline_suite_intact": $RC_SUITE==0,
 "ran": ["cargo test --offline --test seeded_demo (with change)", "cargo nextest run --workspace --no-fail-fast --offline --test-threads 8 (with change; compared with BASELINE.json stable_pass)", "cargo test --offline --test seeded_demo (change stashed)"],
 "needs": "see NOTES.md",
 "base_commit": "$(git rev-parse HEAD)",
}, open("$OUT/meta.json","w"), indent=1)
EOF
echo "confirmed=$OKAY"
cd /; git -C /repo worktree remove --force $WT
$OKAY
