#!/bin/bash
# Runs every seeded change against the check(s) expected to catch it (see DESIGN.md section 7).
# Format: seed  PROP  tier  only-filter(optional)
cd /verif
: > /verif/seeded/RESULTS.md
echo "| seed | check run | outcome | first violated obligation |" >> /verif/seeded/RESULTS.md
echo "|---|---|---|---|" >> /verif/seeded/RESULTS.md
while read -r SEED PROP TIER ONLYF; do
  [ -z "$SEED" ] && continue
  case "$SEED" in \#*) continue;; esac
  TIER=$TIER ONLY=$ONLYF /verif/tools/run_seed.sh $SEED $PROP
done <<'LIST'
C01a-c01 C02 quick c02_h_u8x4
C12b-c12 C02 quick c02_h_u8x4
C02a-c02 C02 quick c02_h_u16x3
C02b-c02 C02 quick c02_v_u16x4
C03a-c03 C04 quick c04b
C03a-c03 C03 quick nearest
C04a-c04 C04 quick c04a
C05a-c05 C05 quick 5rows
C06a-c06 C06 quick u16x4_avx2_div
C06b-c06 C06 quick u16x2_avx2_mul
C07b-c07 C06 quick u8x2_sse4_1_mul
C07a-c07 C07 quick hidden_u8x2_crop
C08a-c08 C08 quick
C09a-c09 C09 quick alpha_u8x2_crop_v
C03b-c03 C09 quick len_lt_capacity
C10a-c10 C02 thorough c02_h_u8x3_sse4_1
C18a-c18 C02 thorough c02_h_u8x4_avx2
C11a-c11 C11 quick
C12a-c12 C12 quick ss_width_same
C01b-c01 C12 quick near_width
C05b-c05 C12 quick almost_width
C13a-c13 C13 quick rel_nearest
C14a-c14 C14 quick mut_cropped
C14b-c14 C14 quick w_cropped
C15a-c15 C15 quick bounds
C17a-c17 C17 quick i32_to_u
LIST
