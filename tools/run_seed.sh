#!/bin/bash
# run_seed.sh <seed-dir-name> <PROP> [<PROP>...]   (env TIER=quick|thorough, ONLY=<substr>)
# Applies /verif/seeded/<seed>/patch.diff to /repo, runs the named checks, reverts /repo.
# Appends one line per check to /verif/seeded/RESULTS.md.
set -u
SEED=$1; shift
PATCH=/verif/seeded/$SEED/patch.diff
TIER=${TIER:-quick}
cd /repo || exit 2
if ! git diff --quiet; then echo "/repo has local changes, refusing"; exit 2; fi
git apply "$PATCH" || { echo "patch does not apply"; exit 2; }
trap 'git -C /repo checkout -- . ' EXIT
cd /verif
# evidence of runs on a modified tree must not overwrite the evidence of the real tree
export VERIF_EVIDENCE_DIR=/tmp/seed_evidence
mkdir -p $VERIF_EVIDENCE_DIR
for P in "$@"; do
  LOG=/tmp/seed_${SEED}_${P}.log
  if [ -n "${ONLY:-}" ]; then
    python3 chk.py $P --tier $TIER --keep --only "$ONLY" > $LOG 2>&1
  else
    python3 chk.py $P --tier $TIER --keep > $LOG 2>&1
  fi
  RC=$?
  V=$(grep -c "^VIOLATION" $LOG)
  FIRST=$(grep -m1 "violation in" $LOG | sed 's/\[chk\] //' | cut -c1-200)
  case $RC in 0) R="MISSED (exit 0)";; 1) R="CAUGHT (exit 1, $V VIOLATION lines)";; *) R="INCONCLUSIVE (exit $RC)";; esac
  echo "| $SEED | $P $TIER ${ONLY:-} | $R | $FIRST |" >> /verif/seeded/RESULTS.md
  echo "$SEED $P -> $R"
done
