#!/usr/bin/env python3
"""Extract signatures of the x86 intrinsics the crate uses from the stdarch sources."""
import re, json, subprocess, glob, sys
S="/root/.rustup/toolchains/nightly-x86_64-unknown-linux-gnu/lib/rustlib/src/rust/library/stdarch/crates/core_arch/src"
used=subprocess.run(r"grep -rhoE '\b_mm(256)?_[a-z0-9_]+' /repo/src --include=sse4.rs --include=avx2.rs --include=simd_utils.rs | sort -u", shell=True, capture_output=True, text=True).stdout.split()
import re as _re
model=open('/verif/kh/src/x86_model.rs').read()
used=sorted(set(used) | set('_'+n for n in _re.findall(r"^pub fn (mm(?:256)?_\w+)", model, _re.M)))
src=""
for f in glob.glob(S+"/x86/*.rs")+glob.glob(S+"/x86_64/*.rs"):
    src+=open(f).read()
sigs={}
for name in used:
    m=re.search(r"pub (const )?(unsafe )?fn %s(<[^>]*>)?\s*\(([^)]*)\)\s*(->\s*([^\{]+))?\{"%re.escape(name), src)
    if not m:
        print("missing", name, file=sys.stderr); continue
    args=[a.strip() for a in m.group(4).replace("\n"," ").split(",") if a.strip()]
    args=[(a.split(":")[0].strip(), a.split(":")[1].strip()) for a in args]
    sigs[name]={"unsafe":bool(m.group(2)),"generics":(m.group(3) or "").strip(),"args":args,"ret":(m.group(6) or "()").strip()}
json.dump(sigs,open("/verif/tools/x86_sigs.json","w"),indent=1)
print(len(sigs),"signatures")
